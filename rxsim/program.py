"""Programs: typed, JSON-serialisable pipelines of rxsci operators.

A program is a list of nodes {"op": name, ...params, "inner": [...] |
"branches": [[...], ...]}.  This module type-checks programs (the
preconditions of the property texts are structural), generates them from a
PRNG, and builds the real rxsci pipeline (multiplexed or plain) with taps
around every operator.
"""
import rx
import rx.operators as rxops
import rxsci as rs

from . import funcs as F
from .core import tap, InjectedFault, EmptyFault, fault_class, canon


def canon_exc(e):
    return canon(e)


class Invalid(Exception):
    pass


class St(object):
    """Static description of a stream: item type, may a lifetime be empty,
    is it downstream of take/first."""
    __slots__ = ('t', 'empty', 'after_take', 'aliased', 'own')

    def __init__(self, t, empty=False, after_take=False, aliased=False):
        self.t = t
        self.empty = empty
        self.after_take = after_take
        # aliased: the items are one mutable object that its producer keeps
        # mutating (streaming scan with an accumulator that mutates and returns
        # its argument).  Nothing may consume such a stream: whatever retains an
        # item would see later mutations, which is the user's aliasing, not a
        # property of rxsci (DESIGN.md, C01/C09).
        self.aliased = aliased
        # own: the items are list objects that the previous operator created and handed over (batch, to_list); a
        # consumer may change them in place.  Set by check_node, consumed by the in-place mappers only.
        self.own = False

    def copy(self, **kw):
        s = St(self.t, self.empty, self.after_take, self.aliased)
        for k, v in kw.items():
            setattr(s, k, v)
        return s


class Flags(object):
    """dual: only operators accepting both kinds of source, with the C01
    preconditions.  in_tee: inside a tee_map branch.  depth: nesting budget."""

    def __init__(self, dual=False, in_tee=False, no_mut_stream=False, allow=None, deny=(), plain_only_ok=False, error_ops_ok=False,
                 deny_accs=()):
        self.deny_accs = set(deny_accs)
        self.plain_only_ok = plain_only_ok
        self.error_ops_ok = error_ops_ok
        self.dual = dual
        self.in_tee = in_tee
        self.no_mut_stream = no_mut_stream
        self.allow = allow
        self.deny = set(deny)

    def sub(self, **kw):
        f = Flags(self.dual, self.in_tee, self.no_mut_stream, self.allow, self.deny, self.plain_only_ok, self.error_ops_ok, self.deny_accs)
        for k, v in kw.items():
            setattr(f, k, v)
        return f


NUM = ('int', 'float')
HASHABLE = ('int', 'float', 'optint', 'pair', 'rec')
MUX_ONLY = {'distinct', 'lag', 'pad_start', 'pad_end', 'start_with',
            'group_by', 'roll', 'split', 'time_split'}
WINDOWS = {'group_by', 'roll', 'split', 'time_split'}
MATH = {'sum', 'mean', 'min', 'max', 'variance', 'stddev', 'fvariance', 'fstddev'}


def _match(t, want):
    return want == 'any' or t == want


def completion_triggered(node):
    op = node['op']
    if op in ('last', 'to_list', 'to_array', 'batch', 'pad_end', 'sort', 'to_deque'):
        return True
    if op == 'dist_update':
        return bool(node.get('reduce'))
    if op == 'scan':
        return bool(node.get('reduce')) or node.get('term') is not None
    if op in MATH or op == 'count':
        return bool(node.get('reduce'))
    if op in WINDOWS:
        return True
    if op == 'tee_map':
        return any(completion_triggered(n) for b in node['branches'] for n in b)
    return False


def listy(t):
    return 'list' if t == 'int' else 'any'


# Operators that may follow a stream of numpy scalars ('npfloat', what scan emits for the seed numpy.float64(0)).  Everything
# that compares, hashes, orders or does arithmetic on items together with other values is kept away from them: a numpy scalar
# compared with a list answers with an array (no truth value), and float + numpy.float64 leaves the type of a typed state
# (the precondition of C01).  The type is contagious through tee_map joins and through containers.
NP_OK = ('identity', 'do_action', 'take', 'first', 'last', 'count', 'to_list', 'batch')


def check_node(node, st, fl):
    """Returns the St after `node`; raises Invalid when a precondition of the
    property texts (or a type) is not met."""
    if st.t in ('npfloat', 'nparr'):
        if node['op'] == 'flat_map' and st.t == 'nparr':
            r = _check_node(node, st.copy(t='list'), fl)       # a numpy array is iterated like a list; its elements are numpy scalars
            r.t = 'npfloat'
            return r
        if node['op'] not in NP_OK:
            raise Invalid('operator after a stream of numpy scalars or arrays')
        r = _check_node(node, st.copy(t='any'), fl)
        if node['op'] != 'count':
            r.t = st.t
        return r
    r = _check_node(node, st, fl)
    if node['op'] == 'tee_map' and r.t != 'npfloat':
        outs = [check_pipeline(b, st, fl.sub(in_tee=True)) for b in node['branches']]
        if any(o.t in ('npfloat', 'nparr') for o in outs):
            r.t = 'npfloat'
    return r


def _check_node(node, st, fl):
    op = node['op']
    t = st.t
    if st.aliased:
        raise Invalid('operator after a stream of aliased mutable items')
    if fl.dual and op in MUX_ONLY:
        raise Invalid('mux-only operator in dual program')
    if op in fl.deny or (fl.allow is not None and op not in fl.allow):
        raise Invalid('operator not allowed here')
    if fl.dual and fl.in_tee and st.after_take and completion_triggered(node):
        raise Invalid('completion-triggered after take/first inside tee branch')

    if op == 'map':
        f = F.MAPS.get(node['fn'])
        if f is not None and f[1] == 'ownlist':
            if not (st.own and t == 'list') or fl.in_tee:
                raise Invalid('in-place mapper needs a list it owns')
            return st.copy(t='list')
        if f is None or not _match(t, f[1]):
            raise Invalid('map type')
        return st.copy(t=f[2] if f[2] != 'any' or f[1] != 'any' else 'any')
    if op == 'starmap':
        if node.get('site'):     # record-typed starmap (C13): the record is unpacked into its five fields
            f = F.MAPS.get(node['fn'])
            if f is None or t != 'rec' or f[1] != 'rec':
                raise Invalid('starmap type')
            return st.copy(t=f[2])
        f = F.STARS.get(node['fn'])
        if f is None or t != f[1]:
            raise Invalid('starmap type')
        return st.copy(t=f[2])
    if op == 'filter':
        f = F.PREDS.get(node['fn'])
        if f is None or not _match(t, f[1]):
            raise Invalid('filter type')
        return st.copy(empty=True)
    if op == 'flat_map':
        if t != 'list':
            raise Invalid('flat_map type')
        return st.copy(t='int', empty=True)
    if op == 'scan':
        a = F.ACCS.get(node['fn'])
        s = F.SEEDS.get(node['seed'])
        if a is None or s is None or not _match(t, a[1]) or s[1] != a[2] or node['fn'] in fl.deny_accs:
            raise Invalid('scan type')
        term = node.get('term')
        if term is not None and (term not in F.TERMS or F.TERMS[term][1] != a[2]):
            raise Invalid('scan terminator type')
        reduce = bool(node.get('reduce'))
        mutating = a[3] or term in F.MUT_TERMS
        if mutating and not reduce and fl.no_mut_stream:
            raise Invalid('streaming mutating accumulator')
        ot = F.STATE_ITEM_TYPE[a[2]]
        if a[2] == 'list' and t != 'int':
            ot = 'any'
        if node['seed'] == 'l_fac9' and ot == 'list' and t != 'int':
            ot = 'any'
        if node['seed'] == 'npf0':
            # numpy scalars go on to type-agnostic operators only: fed to an operator that keeps a float in a typed array they
            # would break the precondition "accumulators return values of the seed's type" (float + numpy.float64 is numpy.float64)
            ot = 'npfloat'
        r = St(ot, st.empty and not reduce and term is None, st.after_take, aliased=mutating and not reduce)
        if reduce and ot == 'list':
            # the reduced accumulator is handed over at completion (the state is dropped right after): the consumer owns the list,
            # also the one emitted for a key that received nothing (a fresh copy of the seed, never the seed itself)
            r.own = True
        return r
    if op == 'count':
        return St('int', st.empty and not node.get('reduce'), st.after_take)
    if op in MATH:
        key = node.get('key')
        it = t
        if key is not None:
            f = F.MAPS.get(key)
            if f is None or not _match(t, f[1]):
                raise Invalid('math key_mapper type')
            it = f[2]
        if it not in NUM:
            raise Invalid('math type')
        reduce = bool(node.get('reduce'))
        if op == 'mean' and reduce and st.empty:
            raise Invalid('mean(reduce) on possibly empty stream')
        if op in ('min', 'max'):
            ot = it if not (reduce and st.empty) else ('optint' if it == 'int' else 'any')
        else:
            ot = 'float'
        return St(ot, st.empty and not reduce, st.after_take)
    if op in ('first', 'last'):
        if st.empty and fl.dual:
            raise Invalid('first/last on possibly empty stream')
        return st.copy(after_take=True) if op == 'first' else st.copy()
    if op == 'take':
        if node['n'] < 0:
            raise Invalid('take n')
        return st.copy(empty=st.empty or node['n'] == 0, after_take=True)
    if op == 'to_list':
        r = St(listy(t), False, st.after_take)
        r.own = True
        return r
    if op == 'to_array':
        if (t, node['tc']) not in (('int', 'q'), ('float', 'd')):
            raise Invalid('to_array type')
        return St('any', False, st.after_take)
    if op == 'distinct_until_changed':
        key = node.get('key')
        if key is not None and (key not in F.KEYS or not _match(t, F.KEYS[key][1])):
            raise Invalid('duc key type')
        return st.copy()
    if op == 'clip':
        if t not in NUM:
            raise Invalid('clip type')
        lo, hi = node.get('lo'), node.get('hi')
        if lo is not None and hi is not None and lo > hi:
            raise Invalid('clip bounds')
        return st.copy()
    if op == 'fill_none':
        if t != 'optint':
            raise Invalid('fill_none type')
        return st.copy(t='int')
    if op == 'batch':
        if node['n'] < 1:
            raise Invalid('batch n')
        r = St(listy(t), st.empty, st.after_take)
        r.own = True
        return r
    if op == 'sched_tag':
        return st.copy(t='any')
    if op == 'assert_1' and node.get('same_key') is not None:
        if not getattr(fl, 'same_key_ok', False) or node['same_key'] not in F.KEYS:
            raise Invalid('same-key assertion outside a split')
        return st.copy()
    if op in ('identity', 'do_action', 'assert_', 'assert_1'):
        if node.get('pred') is not None and (op != 'assert_' or node['pred'] not in F.ASSERT_PREDS):
            raise Invalid('assert predicate')
        return st.copy()
    if op == 'progress':
        if node['threshold'] < 1:
            raise Invalid('progress threshold')
        return st.copy()
    if op == 'tee_map':
        if node['join'] not in ('zip', 'merge', 'combine_latest'):
            raise Invalid('join')
        bs = node['branches']
        if not (2 <= len(bs) <= 4):
            raise Invalid('branch count')
        outs = [check_pipeline(b, st, fl.sub(in_tee=True)) for b in bs]
        if any(len(b) == 0 for b in bs):
            raise Invalid('empty branch')
        if node['join'] != 'merge' and any(o.aliased for o in outs):
            raise Invalid('zip/combine_latest retain branch items: aliased items not allowed')
        if node['join'] == 'zip':
            empty = any(o.empty for o in outs)
        else:
            empty = all(o.empty for o in outs)
        if node['join'] == 'merge' and all(o.t == outs[0].t for o in outs):
            ot = outs[0].t
        else:
            ot = 'any'
        return St(ot, empty, any(o.after_take for o in outs) or st.after_take, any(o.aliased for o in outs))
    if op in ('ignore', 'error_map', 'router', 'drop_planned'):
        if not fl.error_ops_ok:
            raise Invalid('error handlers are generated by C13 only')
        return st.copy(empty=True)
    if op == 'dist_update':
        if t not in NUM:
            raise Invalid('dist_update type')
        return St('any', st.empty and not node.get('reduce'), st.after_take, aliased=not node.get('reduce'))
    if op in ('sort', 'to_deque'):
        if not fl.plain_only_ok:
            raise Invalid('%s needs an ordinary observable' % op)
        if op == 'sort':
            key = node.get('key')
            if key is not None and (key not in F.MAPS or not _match(t, F.MAPS[key][1]) or F.MAPS[key][2] not in NUM):
                raise Invalid('sort key')
            if key is None and t not in ('int', 'float', 'pair'):
                raise Invalid('sort type')
            return st.copy()
        if node.get('extend'):
            if t != 'list':
                raise Invalid('to_deque(extend) type')
            return st.copy(t='int', empty=True)
        return st.copy()
    # ---- multiplexed only ----
    if op == 'distinct':
        key = node.get('key')
        if key is not None:
            if key not in F.KEYS or not _match(t, F.KEYS[key][1]):
                raise Invalid('distinct key type')
        elif t not in HASHABLE:
            raise Invalid('distinct on unhashable')
        return st.copy()
    if op == 'lag':
        if node['n'] < 0:
            raise Invalid('lag n')
        return st.copy(t='pair' if t == 'int' else 'any')
    if op in ('pad_start', 'pad_end'):
        if node['size'] < 0:
            raise Invalid('pad size')
        v = node.get('value')
        return st.copy(t=t if (v is None or t == 'int') else 'any')
    if op == 'start_with':
        return st.copy(t=t if t == 'int' or not node['padding'] else 'any')
    if op in WINDOWS:
        if op == 'roll':
            if node['window'] < 1 or node['stride'] < 1:
                raise Invalid('roll params')
            inner_empty = False
        elif op == 'time_split':
            if t != 'rec':
                raise Invalid('time_split needs records')
            for k in ('active', 'inactive'):
                if node.get(k) is not None and node[k] < 0:
                    raise Invalid('time-outs must not be negative')
            if node.get('dt') not in (None, False, True, 'seconds', 'hours', 'days', 'np_int', 'np_uint', 'np_arr0', 'np_float', 'np_dt64'):
                raise Invalid('time unit')
            # a closing item that is not included, or a zero time-out (the first item of a key expires the window it has just opened), leave empty windows
            inner_empty = bool(node.get('closing')) or node.get('active') == 0 or node.get('inactive') == 0
        else:
            key = node['key']
            if key not in F.KEYS or not (_match(t, F.KEYS[key][1]) or (op == 'split' and F.KEYS[key][1] in (t + '_nan', t + '_impure_split'))
                                         or (op == 'group_by' and F.KEYS[key][1] == t + '_impure')):
                raise Invalid('window key type')
            inner_empty = False
        # assert_1 with a pair-sensitive predicate ("both items have the same split key"): it holds by construction for the items of
        # one segment, so it is allowed as the first operator inside split(K) with a pure key K only
        pure = op == 'split' and F.KEYS[node['key']][1] == t and node['key'] not in ('rv_obj',)
        for n2 in node['inner'][1:]:
            if n2.get('same_key') is not None:
                raise Invalid('same-key assertion must come first inside its split')
        if node['inner'] and node['inner'][0].get('same_key') is not None and not (pure and node['inner'][0]['same_key'] == node['key']):
            raise Invalid('same-key assertion needs the enclosing split with that key')
        out = check_pipeline(node['inner'], St(t, inner_empty, False), fl.sub(same_key_ok=True))
        return St(out.t, st.empty or out.empty, st.after_take, out.aliased)
    raise Invalid('unknown operator %r' % (op,))


def check_pipeline(nodes, st, fl):
    for n in nodes:
        st = check_node(n, st, fl)
    return st


def valid(nodes, st, fl):
    try:
        check_pipeline(nodes, st, fl)
        return True
    except (Invalid, KeyError, TypeError):
        return False


# ---------------------------------------------------------------------------
# generation
# ---------------------------------------------------------------------------

DEFAULT_WEIGHTS = {
    'map': 6, 'starmap': 2, 'filter': 3, 'flat_map': 3, 'scan': 5, 'count': 2, 'sum': 2,
    'mean': 2, 'min': 1, 'max': 1, 'variance': 1, 'stddev': 1, 'fvariance': 1, 'fstddev': 1,
    'first': 1, 'last': 2, 'take': 2, 'to_list': 2, 'to_array': 1, 'distinct_until_changed': 2,
    'clip': 1, 'fill_none': 2, 'batch': 2, 'identity': 1, 'do_action': 1, 'assert_': 1,
    'assert_1': 1, 'progress': 1, 'tee_map': 3,
    'distinct': 2, 'lag': 2, 'pad_start': 2, 'pad_end': 2, 'start_with': 2,
    'group_by': 3, 'roll': 3, 'split': 3, 'time_split': 3,
    'dist_update': 0, 'sort': 0, 'to_deque': 0,
}


_BY_TYPE = {}

# scale mode (set per case by the checks' sizes()): parameters beyond CPython's small-int cache (257+) and
# counters that only go wrong after hundreds of items
SCALE = [False]


def names_for(table, t, col=1, also_any=False):
    key = (id(table), t, col, also_any)
    r = _BY_TYPE.get(key)
    if r is None:
        r = sorted(n for n, f in table.items() if f[col] == t or (also_any and f[col] == 'any'))
        _BY_TYPE[key] = r
    return r


def statically_applicable(op, t):
    """Cheap necessary condition for `op` to accept items of type t (avoids rejection sampling)."""
    if op == 'map':
        return bool(names_for(F.MAPS, t)) or True
    if op == 'starmap':
        return t == 'pair'
    if op == 'filter':
        return bool(names_for(F.PREDS, t))
    if op == 'flat_map':
        return t in ('list', 'nparr')
    if t in ('npfloat', 'nparr'):
        return op in NP_OK
    if op == 'scan':
        return bool(names_for(F.ACCS, t, 1, True))
    if op in MATH:
        return t in ('int', 'float', 'rec', 'pair')
    if op in ('clip', 'to_array', 'dist_update'):
        return t in NUM
    if op == 'fill_none':
        return t == 'optint'
    if op == 'time_split':
        return t == 'rec'
    if op in ('group_by', 'split'):
        return bool(names_for(F.KEYS, t))
    if op == 'sort':
        return t in ('int', 'float', 'pair')
    return True


class Gen(object):
    def __init__(self, rng, weights=None, max_nest=2, small=True):
        self.rng = rng
        self.w = dict(DEFAULT_WEIGHTS)
        if weights:
            self.w.update(weights)
        self.max_nest = max_nest
        self.small = small

    # candidate parameterisations of one operator for a stream
    def candidates(self, op, st, fl, nest):
        r = self.rng
        t = st.t
        if op == 'map':
            names = names_for(F.MAPS, t)
            if st.own and t == 'list' and not fl.in_tee and r.random() < 0.5:
                names = names_for(F.MAPS, 'ownlist')
            elif r.random() < 0.05 or not names:
                names = names_for(F.MAPS, 'any')
            return [{'op': 'map', 'fn': r.choice(names)}] if names else []
        if op == 'starmap':
            names = names_for(F.STARS, t)
            return [{'op': 'starmap', 'fn': r.choice(names)}] if names else []
        if op == 'filter':
            names = names_for(F.PREDS, t)
            return [{'op': 'filter', 'fn': r.choice(names)}] if names else []
        if op == 'flat_map':
            return [{'op': 'flat_map'}]
        if op == 'scan':
            accs = names_for(F.ACCS, t, 1, True)
            if not accs:
                return []
            a = r.choice(accs)
            seed = r.choice(F.seeds_for(F.ACCS[a][2]))
            terms = F.terms_for(F.ACCS[a][2])
            term = r.choice(terms) if terms and r.random() < 0.35 else None
            node = {'op': 'scan', 'fn': a, 'seed': seed, 'reduce': r.random() < 0.5, 'term': term}
            if term is not None and r.random() < 0.08:
                node['tff'] = True
            return [node]
        if op == 'count':
            return [{'op': 'count', 'reduce': r.random() < 0.5}]
        if op in MATH:
            node = {'op': op, 'reduce': r.random() < 0.5}
            if t == 'rec':
                node['key'] = 'v_of'
            elif t == 'pair':
                node['key'] = 'fst'
            elif t == 'int' and r.random() < 0.3:
                node['key'] = r.choice(['half', 'inc'])
            return [node]
        if op == 'do_action' and r.random() < 0.5:
            return [{'op': 'do_action', 'cb': 'all'}]       # every callback given, not only on_next
        if op in ('first', 'last', 'identity', 'do_action', 'assert_', 'assert_1', 'to_list', 'flat_map'):
            return [{'op': op}]
        if op == 'take':
            if SCALE[0]:
                return [{'op': 'take', 'n': r.choice([256, 257, 300])}]
            return [self.npn({'op': 'take', 'n': r.choice([0, 1, 1, 2, 2, 3, 5, 50, 130, 257])})]
        if op == 'to_array':
            return [{'op': 'to_array', 'tc': 'q' if t == 'int' else 'd'}]
        if op == 'distinct_until_changed' or op == 'distinct':
            keys = names_for(F.KEYS, t)
            node = {'op': op}
            if keys and r.random() < 0.6:
                node['key'] = r.choice(keys)
                if r.random() < 0.08:
                    node['ff'] = True          # the key mapper is a callable object with a false truth value
            return [node]
        if op == 'clip':
            lo = r.choice([None, 0, 1, 2])
            hi = r.choice([None, 3, 5, 8])
            return [{'op': 'clip', 'lo': lo, 'hi': hi}]
        if op == 'fill_none':
            return [{'op': 'fill_none', 'value': r.choice([0, -1, 42])}]
        if op == 'batch':
            if SCALE[0]:
                return [{'op': 'batch', 'n': r.choice([100, 256, 257, 300])}]
            return [self.npn({'op': 'batch', 'n': r.choice([1, 1, 2, 2, 3, 4, 7, 16, 64, 100])})]
        if op == 'progress':
            return [{'op': 'progress', 'threshold': r.choice([1, 2, 3, 100, 256]), 'mt': r.random() < 0.5}]
        if op == 'dist_update':
            return [{'op': 'dist_update', 'reduce': r.random() < 0.5, 'bins': r.choice([2, 4, 8])}]
        if op == 'sort':
            node = {'op': 'sort', 'reverse': r.random() < 0.5}
            if t == 'int' and r.random() < 0.6:
                node['key'] = r.choice(['mod3', 'neg', 'half'])
            elif t == 'pair':
                node['key'] = 'fst'
            return [node]
        if op == 'to_deque':
            return [{'op': 'to_deque', 'extend': t == 'list' and r.random() < 0.5}]
        if op == 'lag':
            if SCALE[0]:
                return [{'op': 'lag', 'n': r.choice([128, 257, 300])}]
            return [self.npn({'op': 'lag', 'n': r.choice([0, 1, 1, 2, 3, 9, 33, 128])})]
        if op in ('pad_start', 'pad_end'):
            return [self.npn({'op': op, 'size': r.choice([0, 1, 2, 3, 3, 17] if not SCALE[0] else [3, 257, 300]), 'value': r.choice([None, None, 0, 77])})]
        if op == 'start_with':
            node = {'op': 'start_with', 'padding': [r.randrange(100, 110) for _ in range(r.choice([0, 1, 2, 3]))]}
            if r.random() < 0.3:
                # the padding is any iterable: a tuple, a range, a deque
                node['pkind'] = r.choice(['tuple', 'range', 'deque'])
                if node['pkind'] == 'range' and node['padding']:
                    node['padding'] = list(range(node['padding'][0], node['padding'][0] + len(node['padding'])))
            return [node]
        if op == 'tee_map':
            if nest <= 0:
                return []
            nb = r.choice([2, 2, 2, 3, 3, 4])
            bs = [self.pipeline(st, fl.sub(in_tee=True), nest - 1, r.choice([1, 1, 2, 3])) for _ in range(nb)]
            return [{'op': 'tee_map', 'join': r.choice(['zip', 'merge', 'combine_latest']), 'branches': bs}]
        if op in WINDOWS:
            if nest <= 0:
                return []
            node = {'op': op}
            if op == 'roll':
                hi = 6 if self.small else 12
                if SCALE[0]:
                    node['window'] = r.choice([256, 257, 300, 300])
                    node['stride'] = r.choice([64, 100, 257, 300, 301, node['window']])
                else:
                    if r.random() < 0.06:
                        hi = r.choice([17, 33, 64, 130])
                    node['window'] = r.randint(1, hi)
                    node['stride'] = r.choice([r.randint(1, hi), r.randint(1, min(hi, 6)), node['window']])
                    self.npn(node)
                ist = St(t, False, False)
            elif op == 'time_split':
                node['active'] = r.choice([None, 3, 5, 8] * 3 + [0])         # a timeout of zero is a configured timeout
                node['inactive'] = r.choice([None, 1, 2, 3] * 3 + [0])
                node['closing'] = r.random() < 0.5
                node['include'] = r.random() < 0.5
                ist = St(t, node['closing'] or node['active'] == 0 or node['inactive'] == 0, False)
            else:
                keys = names_for(F.KEYS, t)
                if op == 'split' and r.random() < 0.15:
                    keys = names_for(F.KEYS, t + '_nan') or keys      # values not equal to themselves: split only
                if not keys:
                    return []
                node['key'] = r.choice(keys)
                if r.random() < 0.06 and node['key'] not in ('rr3', 'cnt3'):
                    node['ff'] = True
                ist = St(t, False, False)
                if op == 'split' and F.KEYS[node['key']][1] == t and node['key'] != 'rv_obj' and r.random() < 0.15:
                    node['inner'] = [{'op': 'assert_1', 'same_key': node['key']}] + self.pipeline(ist, fl, nest - 1, r.choice([1, 1, 2, 2]))
                    return [node]
            node['inner'] = self.pipeline(ist, fl, nest - 1, r.choice([1, 1, 2, 2, 3]))
            return [node]
        return []

    def npn(self, node):
        if self.rng.random() < 0.08:
            node['npn'] = True
        return node

    def pipeline(self, st, fl, nest, length):
        nodes = []
        all_ops = [o for o in sorted(self.w) if self.w[o] > 0]
        tries = 0
        cache = {}
        while len(nodes) < length and tries < 40:
            tries += 1
            ck = (st.t, nest > 0)
            ow = cache.get(ck)
            if ow is None:
                ops = [o for o in all_ops
                       if not (fl.dual and o in MUX_ONLY) and o not in fl.deny and (fl.allow is None or o in fl.allow)
                       and (nest > 0 or (o not in WINDOWS and o != 'tee_map')) and statically_applicable(o, st.t)]
                ow = cache[ck] = (ops, [self.w[o] for o in ops])
            ops, weights = ow
            if not ops or st.aliased:
                break
            op = self.rng.choices(ops, weights)[0]
            for node in self.candidates(op, st, fl, nest):
                try:
                    st2 = check_node(node, st, fl)
                except (Invalid, KeyError):
                    continue
                nodes.append(node)
                st = st2
                break
        if not nodes:
            nodes.append({'op': 'identity'})
        return nodes


def depth_of(nodes):
    d = 0
    for n in nodes:
        sub = 0
        if 'inner' in n:
            sub = depth_of(n['inner'])
        if 'branches' in n:
            sub = max(depth_of(b) for b in n['branches'])
        d = max(d, 1 + sub)
    return d


def size_of(nodes):
    s = 0
    for n in nodes:
        s += 1
        if 'inner' in n:
            s += size_of(n['inner'])
        if 'branches' in n:
            s += sum(size_of(b) for b in n['branches'])
    return s


def ops_in(nodes, acc=None):
    acc = set() if acc is None else acc
    for n in nodes:
        acc.add(n['op'])
        if 'inner' in n:
            ops_in(n['inner'], acc)
        if 'branches' in n:
            for b in n['branches']:
                ops_in(b, acc)
    return acc


def walk(nodes, path='P'):
    """Yields (node, path, in_tap, out_tap, index) for every node, depth first."""
    for i, n in enumerate(nodes):
        yield n, path, '%s/%d' % (path, i), '%s/%d' % (path, i + 1), i
        if 'inner' in n:
            for x in walk(n['inner'], '%s/%d:in' % (path, i)):
                yield x
        if 'branches' in n:
            for bi, b in enumerate(n['branches']):
                for x in walk(b, '%s/%d:b%d' % (path, i, bi)):
                    yield x


# ---------------------------------------------------------------------------
# building the real pipeline
# ---------------------------------------------------------------------------

def _the_fault(ctx, site, k, n):
    """The exception a failing user function raises for record (k, n): a fresh object of the class the fault mode selects, or -
    mode 'shared' - the very same object for every failing call of the run (a module-level sentinel error, the stored
    exception of a failed Future)."""
    mode = ctx.extra.get('falsy_faults')
    if mode == 'shared':
        shared = ctx.extra.get('shared_exc')
        if shared is None:
            shared = ctx.extra['shared_exc'] = fault_class(False, 0, 0)(site, 'shared')
        return shared
    return fault_class(mode, k, n)(site, k, n)


def _faulty(ctx, site, fn, item_arg):
    """Wrap a user function: raise InjectedFault when the fault plan names the
    (party, ordinal) of the record being processed at this site."""
    plan = ctx.fail.get(site)
    if not plan:
        return fn
    plan = set(tuple(x) for x in plan)

    def wrapped(*args):
        r = args[item_arg]
        if type(r) is F.Rec and (r.k, r.n) in plan:
            ctx.fired[site] = ctx.fired.get(site, 0) + 1
            raise _the_fault(ctx, site, r.k, r.n)
        return fn(*args)
    return wrapped


def key_fn(name, node=None):
    f = F.KEYS[name][0] if name is not None else None
    if f is not None and node is not None and node.get('ff'):
        return F.FalsyFn(f)          # the same function, as a callable object with a false truth value
    return f



def _n(node, key):
    """an integer parameter, as a numpy integer when the node asks for it (sizes computed with numpy)"""
    if node.get('npn'):
        import numpy as np
        return np.int64(node[key])
    return node[key]


def _padding(node):
    p = list(node['padding'])
    kind = node.get('pkind', 'list')
    if kind == 'tuple':
        return tuple(p)
    if kind == 'range':
        return range(p[0], p[0] + len(p)) if p else range(0)
    if kind == 'deque':
        import collections
        return collections.deque(p)
    return p


def build_node(node, ctx, mode, path, i):
    op = node['op']
    site = node.get('site')
    if op == 'map':
        f = F.MAPS[node['fn']][0]
        if site:
            f = _faulty(ctx, site, f, 0)
        return rs.ops.map(f)
    if op == 'starmap':
        if site:  # record-typed starmap used by C13: Rec is a tuple
            star = F.star_rec(F.MAPS[node['fn']][0])
            plan = set(tuple(x) for x in ctx.fail.get(site, ()))

            def fstar(k, n, v, t, c):
                if (k, n) in plan:
                    ctx.fired[site] = ctx.fired.get(site, 0) + 1
                    raise _the_fault(ctx, site, k, n)
                return star(k, n, v, t, c)
            return rs.ops.starmap(fstar)
        return rs.ops.starmap(F.STARS[node['fn']][0])
    if op == 'filter':
        f = F.PREDS[node['fn']][0]
        if site:
            f = _faulty(ctx, site, f, 0)
        return rs.ops.filter(f)
    if op == 'flat_map':
        return rs.ops.flat_map()
    if op == 'scan':
        f = F.ACCS[node['fn']][0]
        if site:
            f = _faulty(ctx, site, f, 1)
        seed = F.SEEDS[node['seed']][0]()
        term = F.TERMS[node['term']][0] if node.get('term') else None
        if term is not None and node.get('tff'):
            term = F.FalsyFn(term)          # the terminator as a callable object with a false truth value
        return rs.ops.scan(f, seed, reduce=bool(node.get('reduce')), terminator=term)
    if op == 'count':
        return rs.ops.count(reduce=bool(node.get('reduce')))
    if op in MATH:
        kw = {'reduce': bool(node.get('reduce'))}
        if node.get('key'):
            kw['key_mapper'] = F.MAPS[node['key']][0]
        fn = {'sum': rs.math.sum, 'mean': rs.math.mean, 'min': rs.math.min, 'max': rs.math.max,
              'variance': rs.math.variance, 'stddev': rs.math.stddev,
              'fvariance': rs.math.formal.variance, 'fstddev': rs.math.formal.stddev}[op]
        return fn(**kw)
    if op == 'first':
        return rs.ops.first()
    if op == 'last':
        return rs.ops.last()
    if op == 'take':
        return rs.ops.take(_n(node, 'n'))
    if op == 'to_list':
        return rs.data.to_list()
    if op == 'to_array':
        return rs.data.to_array(node['tc'])
    if op == 'distinct_until_changed':
        return rs.ops.distinct_until_changed(key_fn(node.get('key'), node))
    if op == 'clip':
        return rs.data.clip(lower_bound=node.get('lo'), higher_bound=node.get('hi'))
    if op == 'fill_none':
        return rs.data.fill_none(node['value'])
    if op == 'batch':
        return rs.data.batch(_n(node, 'n'))
    if op == 'sched_tag':
        from .core import sched_tag
        return sched_tag(ctx, mode)
    if op == 'identity':
        return rs.ops.identity()
    if op == 'do_action':
        if node.get('cb') == 'all' and mode == 'mux':
            return rs.ops.do_action(on_next=F.noop, on_completed=F.noop_any, on_create=F.noop_any, on_error=F.noop_any)
        if node.get('cb') == 'all':
            return rs.ops.do_action(on_next=F.noop, on_completed=F.noop_any, on_error=F.noop_any)
        return rs.ops.do_action(on_next=F.noop)
    if op == 'assert_':
        return rs.ops.assert_(F.ASSERT_PREDS[node['pred']] if node.get('pred') else F.always_true, name='sim')
    if op == 'assert_1':
        if node.get('same_key') is not None:
            return rs.ops.assert_1(F.same_key_pred(node['same_key']), name='same-key')
        return rs.ops.assert_1(F.PRED2['t2'], name='sim')
    if op == 'progress':
        return rs.ops.progress('sim', node['threshold'], measure_throughput=bool(node.get('mt', True)))
    if op == 'tee_map':
        bs = []
        for bi, b in enumerate(node['branches']):
            bs.append(rx.pipe(*build(b, ctx, mode, '%s/%d:b%d' % (path, i, bi))))
        return rs.ops.tee_map(*bs, join=''.join(list(node['join'])))      # an equal string built at run time, not the interned literal
    if op == 'ignore':
        return rs.error.ignore()
    if op == 'error_map':
        val = node.get('value')
        if val == 'rec':
            return rs.error.map(F.error_to_rec)
        if val == 'same':
            return rs.error.map(F.error_same)
        if node.get('partial'):
            import functools
            return rs.error.map(functools.partial(F.const_of, val))      # a callable without __name__
        return rs.error.map(lambda e: val)
    if op == 'router':
        errors, route = rs.error.create_error_router()
        dead = ctx.extra.setdefault('dead', [])

        def dl_next(e):
            ctx.g += 1
            dead.append((ctx.g, ctx.seq, 'N', canon_exc(e)))

        def dl_done():
            ctx.g += 1
            dead.append((ctx.g, ctx.seq, 'c', None))
        def listen():
            errors.subscribe(on_next=dl_next, on_completed=dl_done, on_error=lambda e: dead.append((ctx.g, ctx.seq, 'e', canon_exc(e))))
        if ctx.extra.get('late_dead_letter'):
            # the dead-letter observable gets its subscriber after the data stream was subscribed, before the first item
            ctx.extra.setdefault('after_subscribe', []).append(listen)
        else:
            listen()
        return route()
    if op == 'drop_planned':
        plan = set(tuple(x) for x in ctx.extra.get('drop', {}).get(node['site'], ()))
        return rs.ops.filter(lambda r: not (type(r) is F.Rec and (r.k, r.n) in plan))
    if op == 'dist_update':
        return rs.math.dist.update(bin_count=node.get('bins', 8), reduce=bool(node.get('reduce')))
    if op == 'sort':
        kw = {'reverse': bool(node.get('reverse'))}
        if node.get('key'):
            kw['key'] = F.MAPS[node['key']][0]
        return rs.data.sort(**kw)
    if op == 'to_deque':
        return rs.data.to_deque(extend=bool(node.get('extend')))
    if mode != 'mux':
        raise Invalid('%s needs a multiplexed source' % op)
    if op == 'distinct':
        return rs.ops.distinct(key_fn(node.get('key'), node))
    if op == 'lag':
        return rs.data.lag(_n(node, 'n'))
    if op == 'pad_start':
        return rs.data.pad_start(_n(node, 'size'), node.get('value'))
    if op == 'pad_end':
        return rs.data.pad_end(_n(node, 'size'), node.get('value'))
    if op == 'start_with':
        return rs.ops.start_with(_padding(node))
    inner = build(node['inner'], ctx, mode, '%s/%d:in' % (path, i))
    if op == 'group_by':
        if node['key'] == 'rr3':
            calls = ctx.extra.setdefault('keycalls', {}).setdefault('%s/%d' % (path, i), [])

            def round_robin(item, _calls=calls):
                _calls.append(len(_calls) % 3)
                return _calls[-1]
            return rs.ops.group_by(round_robin, inner)
        return rs.ops.group_by(key_fn(node['key'], node), inner)
    if op == 'roll':
        return rs.data.roll(_n(node, 'window'), _n(node, 'stride'), inner)
    if op == 'split':
        if node['key'] == 'cnt3':
            calls = ctx.extra.setdefault('keycalls', {}).setdefault('%s/%d' % (path, i), [])

            def every_third(item, _calls=calls):
                _calls.append(len(_calls) // 3)
                return _calls[-1]
            return rs.data.split(every_third, inner)
        return rs.data.split(key_fn(node['key'], node), inner)
    if op == 'time_split':
        return rs.data.time_split(
            time_mapper=time_mapper(node),
            active_timeout=timeout(node, 'active'),
            inactive_timeout=timeout(node, 'inactive'),
            closing_mapper=(F.FalsyCloser() if node.get('closing') == 'falsy_callable' else F.closing_of) if node.get('closing') else None,
            include_closing_item=include_arg(node),
            pipeline=inner)
    raise Invalid('unknown operator %r' % (op,))


_EPOCH = None


def include_arg(node):
    """include: True/False, or 'one'/'zero'/'np_true' = the flag given as 1 / 0 / numpy.True_ (not the builtin bool)"""
    v = node.get('include', True)
    if v == 'one':
        return 1
    if v == 'zero':
        return 0
    if v == 'np_true':
        import numpy
        return numpy.True_
    return bool(v)


def time_mapper(node):
    """dt: falsy = integer ticks; True/'seconds', 'hours', 'days' = datetime timestamps one tick apart in that
    unit (gaps of several hours or days: a timedelta's .seconds is not its total_seconds())."""
    dt = node.get('dt')
    if not dt:
        return F.time_of
    return {'hours': F.time_of_hours, 'days': F.time_of_days, 'np_int': F.time_of_np_int, 'np_uint': F.time_of_np_uint, 'np_arr0': F.time_of_np_arr0, 'np_float': F.time_of_np_float,
            'np_dt64': F.time_of_np_dt64}.get(dt, F.time_of_dt)


def timeout(node, k):
    v = node.get(k)
    if v is None:
        return None
    dt = node.get('dt')
    if dt:
        from datetime import timedelta
        if dt in ('np_int', 'np_float', 'np_arr0'):
            return v
        if dt == 'np_uint':
            import numpy
            return numpy.uint64(v)
        if dt == 'np_dt64':
            import numpy
            return numpy.timedelta64(int(v), 's')
        if dt == 'hours':
            return timedelta(hours=v)
        if dt == 'days':
            return timedelta(days=v, microseconds=v)
        return timedelta(seconds=v)
    return v


def build(nodes, ctx, mode, path='P'):
    """List of rx operators: tap, op0, tap, op1, ..., tap."""
    out = []
    taps = not ctx.notaps
    if taps:
        out.append(tap(ctx, '%s/0' % path, mode))
    for i, n in enumerate(nodes):
        out.append(build_node(n, ctx, mode, path, i))
        if taps:
            out.append(tap(ctx, '%s/%d' % (path, i + 1), mode))
    return out
