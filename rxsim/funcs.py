"""Fixed library of user functions.  Cases store names, so a replay file
rebuilds exactly the same closures.  Every function is pure and total on its
declared input type (unless a fault plan names the call).

Source items are records `Rec(k, n, v, t, c)`: party (key), per-party
ordinal, value, virtual timestamp, closing flag.
"""
from collections import namedtuple

import math as _math

import numpy as _np

Rec = namedtuple('Rec', ['k', 'n', 'v', 't', 'c'])

# name -> (fn, in_type, out_type)
MAPS = {}
PREDS = {}     # name -> (fn, in_type)           returns bool
KEYS = {}      # name -> (fn, in_type)           returns hashable, equal-not-identical values
ACCS = {}      # name -> (fn, item_type, seed_names, mutating)
SEEDS = {}     # name -> (factory returning the seed argument to pass, state_type)
TERMS = {}     # name -> (fn, state_type)
PRED2 = {}     # name -> fn(prev, cur) -> True   (assert_1)


def _m(name, it, ot):
    def deco(f):
        MAPS[name] = (f, it, ot)
        return f
    return deco


def _p(name, it):
    def deco(f):
        PREDS[name] = (f, it)
        return f
    return deco


def _k(name, it):
    def deco(f):
        KEYS[name] = (f, it)
        return f
    return deco


# ---- mappers -------------------------------------------------------------
_m('inc', 'int', 'int')(lambda v: v + 1)
_m('dec', 'int', 'int')(lambda v: v - 1)
_m('dbl', 'int', 'int')(lambda v: v * 2)
_m('neg', 'int', 'int')(lambda v: -v)
_m('mod3', 'int', 'int')(lambda v: v % 3)
_m('half', 'int', 'float')(lambda v: v / 2)
_m('tenth', 'int', 'float')(lambda v: v * 0.1)
_m('finc', 'float', 'float')(lambda v: v + 0.25)
_m('fneg', 'float', 'float')(lambda v: -v)
_m('fint', 'float', 'int')(lambda v: int(max(-1e15, min(1e15, v))))      # stays inside int64 whatever the float (typed state arrays)
# values that are equal across types and signs but distinguishable: 1 == 1.0 == True, 0 == 0.0 == -0.0 == False
_m('mixed_eq', 'int', 'any')(lambda v: [1, 1.0, True, 0, 0.0, -0.0, False, 2][v % 8])
# numpy arrays as items (flat_map iterates them): [], [0], [0, 1] - a one-element array holding 0 is non-empty but false
_m('to_nparr', 'int', 'nparr')(lambda v: _np.arange(v % 3))
_m('pair', 'int', 'pair')(lambda v: (v, v % 3))
_m('swap', 'pair', 'pair')(lambda p: (p[1], p[0]))
_m('fst', 'pair', 'int')(lambda p: p[0])
_m('dup3', 'int', 'list')(lambda v: [v] * (v % 3))
_m('lst2', 'int', 'list')(lambda v: [v, v + 1])
def _l_pop(l):
    # consumes the list it was handed: drops its first element in place (a header), returns the same object
    if len(l) > 1:
        del l[0]
    return l


def _l_trailer(l):
    l.append(-7)
    return l


_m('l_pop', 'ownlist', 'list')(_l_pop)
_m('l_trailer', 'ownlist', 'list')(_l_trailer)
_m('lsum', 'list', 'int')(lambda l: sum(l))
_m('llen', 'list', 'int')(lambda l: len(l))
_m('none_odd', 'int', 'optint')(lambda v: None if v % 2 else v)
_m('v_of', 'rec', 'int')(lambda r: r.v)
_m('rec_inc', 'rec', 'rec')(lambda r: r._replace(v=r.v + 1))
_m('wrap', 'any', 'any')(lambda x: (x,))

# starmap functions (applied to a pair)
STARS = {
    'add2': (lambda a, b: a + b, 'pair', 'int'),
    'sub2': (lambda a, b: a - b, 'pair', 'int'),
    'mk2': (lambda a, b: (b, a), 'pair', 'pair'),
}

# ---- predicates (return real bools: filter_mux tests `is True`) -------------
_p('is_even', 'int')(lambda v: v % 2 == 0)
_p('lt5', 'int')(lambda v: v < 5)
_p('ne3', 'int')(lambda v: v % 3 != 0)
_p('ge0', 'int')(lambda v: v >= 0)
_p('never', 'int')(lambda v: False)
# predicates that answer with a truthy / falsy value that is not the builtin bool (numpy users get these all the time)
_p('np_gt4', 'int')(lambda v: _np.int64(v) > 4)
_p('odd_truthy', 'int')(lambda v: v % 2)
_p('r_np_even', 'rec')(lambda r: _np.int64(r.v) % 2 == 0)
_p('fpos', 'float')(lambda v: v > 0.5)
_p('p_some', 'optint')(lambda v: v is not None)
_p('l_nonempty', 'list')(lambda l: len(l) > 0)
_p('r_even', 'rec')(lambda r: r.v % 2 == 0)
_p('r_lt5', 'rec')(lambda r: r.v < 5)
_p('p_lt', 'pair')(lambda p: p[0] < 6)

# always-true predicates for assert_
TRUE_PREDS = {
    'int': ('t_int', lambda v: isinstance(v, int)),
    'float': ('t_float', lambda v: isinstance(v, float)),
    'rec': ('t_rec', lambda r: r.n >= 0),
    'any': ('t_any', lambda v: True),
}
PRED2['t2'] = lambda a, b: True


def same_key_pred(name):
    """assert_1 predicate: previous and current item have the same value of key function `name` (true by construction for two
    items of one split(name) segment; false for the last item of a segment and the first of the next)"""
    kf = KEYS[name][0]

    def same(prev, cur):
        return bool(kf(prev) == kf(cur))
    return same

# ---- key functions: equal but never identical results ------------------------
_k('k_mod2', 'int')(lambda v: v % 2)
_k('k_mod3', 'int')(lambda v: v % 3)
_k('k_big3', 'int')(lambda v: 10 ** 20 + v % 3)
_k('k_tup', 'int')(lambda v: (v % 3, 'k' * (v % 2)))
_k('k_str', 'int')(lambda v: 'key-%d' % (v % 4))
_k('k_flt', 'int')(lambda v: (v % 3) / 2)
_k('k_const', 'int')(lambda v: 10 ** 30)
_k('k_div2', 'int')(lambda v: v // 2)          # runs of length <= 2 when v increases
_k('k_div3big', 'int')(lambda v: 10 ** 20 + v // 3)
_k('k_id', 'int')(lambda v: v)
_k('k_np3', 'int')(lambda v: _np.int64(v % 3))
_k('rk', 'rec')(lambda r: r.k)
_k('rk_big', 'rec')(lambda r: 10 ** 20 + r.k)
_k('rk_tup', 'rec')(lambda r: (r.k, 'p%d' % r.k))
_k('rv_mod3', 'rec')(lambda r: r.v % 3)
_k('rv_div2big', 'rec')(lambda r: 10 ** 20 + r.v // 2)
_k('rv_tup', 'rec')(lambda r: (r.v % 2, str(r.v % 2)))
_k('rv_flt', 'rec')(lambda r: (r.v % 3) / 2)
_k('rv_mixed', 'rec')(lambda r: [1, 1.0, True, 2, 2.0, None][r.v % 6])     # 1 == 1.0 == True: one group
_k('rv_zero', 'rec')(lambda r: [0.0, -0.0, 0, False, ''][r.v % 5])            # 0.0 == -0.0 == 0 == False, '' differs
_k('rv_nest', 'rec')(lambda r: ((r.v % 2, (r.v % 3,)), frozenset([r.v % 2])))
_k('rv_np', 'rec')(lambda r: _np.int64(r.v % 3))                 # `!=` on numpy scalars answers numpy.bool_
_k('rv_npf', 'rec')(lambda r: _np.float64((r.v % 3) / 2))
# predicate values that are not equal to themselves; type 'rec_nan' keeps them away from group_by/distinct (whose
# statements speak about ==): only split (C06, "differs by !=") uses them
_k('rv_nan', 'rec_nan')(lambda r: _math.nan if r.v % 3 == 0 else r.v % 3)          # the one shared nan object
_k('rv_nan_fresh', 'rec_nan')(lambda r: float('nan') if r.v % 2 == 0 else 1.0)     # a new nan object every time
_k('rv_nanfresh_none', 'rec')(lambda r: float('nan') if r.v % 3 == 0 else (None if r.v % 3 == 1 else 1.0))   # a new nan object each time: its own group under ==
_k('rv_hashcol', 'rec')(lambda r: [-1, -2, 0, '', 2305843009213693951, (0, -1), (0, -2)][r.v % 7])   # different keys, equal hashes
class Plain(object):
    """a plain object: equal to itself only (no __eq__), hashable by identity - e.g. a shared session/device object"""
    __slots__ = ('tag',)

    def __init__(self, tag):
        self.tag = tag

    def __repr__(self):
        return 'Plain(%d)' % self.tag

    def __canon__(self):
        return ('plain', self.tag)

    def __deepcopy__(self, memo):
        return Plain(self.tag)        # a copy is another object: not equal to the original


_PLAIN = [Plain(0), Plain(1), Plain(2)]
_k('rv_obj', 'rec')(lambda r: _PLAIN[r.v % 3])          # the very same object for equal predicate values; a copy would differ
_k('rv_dt64ns', 'rec')(lambda r: _np.datetime64(r.v % 3, 'ns'))          # numpy's default resolution: .item() of it is an int
_k('rv_fset', 'rec')(lambda r: frozenset([r.v % 3, 'x']) if r.v % 4 else frozenset())     # a set-valued key is a key value like any other
# a text key and the int that equals its hash: different keys (a lookup structure that stores hash(key) for text would merge them)
_k('rv_strhash', 'rec')(lambda r: ['ab', hash('ab'), b'cd', hash(b'cd'), 'ab'][r.v % 5])
# an impure key mapper (round-robin sharding: the answer does not depend on the item).  The builder creates a fresh
# counter per pipeline and records every answer; the partition model uses the recorded answers (one call per item)
_k('rr3', 'rec_impure')(lambda r: 0)
# an impure split predicate (a counter: "a new segment every third call"); same construction, split only (C06)
_k('cnt3', 'rec_impure_split')(lambda r: 0)
_k('rn_div3', 'rec')(lambda r: 'run-%d' % (r.n // 3))
_k('pk0', 'pair')(lambda p: p[0] % 3)
_k('fk', 'float')(lambda v: int(max(-1e15, min(1e15, v))) % 3)

# ---- accumulators ------------------------------------------------------------


def _append(acc, i):
    acc.append(i)
    return acc


def _dictcount(acc, i):
    k = i % 3
    acc[k] = acc.get(k, 0) + 1
    return acc


def _dq(acc, i):
    acc.append(i)
    if len(acc) > 3:
        acc.popleft()
    return acc


def _mk_deque():
    from collections import deque
    return deque()


class AccObj(object):
    """A plain user-defined accumulator: hashable (by identity) and mutable."""

    def __init__(self):
        self.n = 0
        self.total = 0
        self.seen = []

    def __canon__(self):
        return (self.n, self.total, list(self.seen))


def _obj_add(acc, i):
    acc.n += 1
    acc.total += i
    acc.seen.append(i)
    return acc


def _tupobj_add(acc, i):
    acc[0].n += 1
    acc[0].total += i
    acc[0].seen.append(i)
    return (acc[0], acc[1] + 1)


# name -> (fn, item_type, state_type, mutating)
ACCS = {
    'add': (lambda a, i: a + i, 'int', 'int', False),
    'max2': (lambda a, i: a if a > i else i, 'int', 'int', False),
    'cnt': (lambda a, i: a + 1, 'any', 'int', False),
    'addf': (lambda a, i: a + i, 'float', 'float', False),
    'addif': (lambda a, i: a + float(i), 'int', 'float', False),
    'fprod': (lambda a, i: max(-1e12, min(1e12, a * float((i % 7) - 3))), 'int', 'float', False),     # passes through 0.0 and -0.0
    'xor_even': (lambda a, i: a != (i % 2 == 0), 'int', 'bool', False),
    'append': (_append, 'any', 'list', True),
    'append_pure': (lambda a, i: a + [i], 'any', 'list', False),
    'dictcount': (_dictcount, 'int', 'dict', True),
    'dq3': (_dq, 'any', 'deque', True),
    'pairsum': (lambda a, i: (a[0] + i, a[1] + 1), 'int', 'tup2', False),
    'vecadd': (lambda a, i: a + _np.array([i, 1]), 'int', 'ndarr', False),       # the accumulator is a numpy array (a comparison with it is element-wise)
    'tupcat': (lambda a, i: a + (i,), 'any', 'tup', False),
    # accumulators over records (C13: the fault plan identifies calls by the record's party and ordinal)
    'r_sum': (lambda a, r: a + r.v, 'rec', 'int', False),
    'r_cnt': (lambda a, r: a + 1, 'rec', 'int', False),
    'r_list': (lambda a, r: a + [r.v], 'rec', 'list', False),
    # an accumulator that legitimately returns None now and then ("reset"); only with factory seeds, so that the
    # multiplexed state lives in an object list (a typed array could not hold None)
    'obj_add': (_obj_add, 'int', 'accobj', True),
    'tupobj_add': (_tupobj_add, 'int', 'tupobj', True),
    'nreset': (lambda a, i: None if i % 4 == 3 else (0 if a is None else a) + i, 'int', 'optfac', False),
}

# seed name -> (seed object passed to rs.ops.scan, state_type)
# value seeds are deep-copied per key by rxsci; factories are called.
SEEDS = {
    'i0': (lambda: 0, 'int', False),
    'i7': (lambda: 7, 'int', False),
    'f0': (lambda: 0.0, 'float', False),
    'f1': (lambda: 1.0, 'float', False),
    'fm0': (lambda: -0.0, 'float', False),
    'npf0': (lambda: _np.float64(0.0), 'float', False),     # type(seed) is numpy.float64: kept in an object list, stays a numpy scalar
    'bF': (lambda: False, 'bool', False),
    'l_val': (lambda: [], 'list', False),          # value seed (a fresh [] per pipeline build)
    'l_fac': (lambda: list, 'list', True),         # factory seed
    'l_fac9': (lambda: (lambda: [9]), 'list', True),
    'd_val': (lambda: {}, 'dict', False),
    'd_fac': (lambda: dict, 'dict', True),
    'dq_fac': (lambda: _mk_deque, 'deque', True),
    't00': (lambda: (0, 0), 'tup2', False),
    'nz2': (lambda: _np.zeros(2), 'ndarr', False),
    'nz2_fac': (lambda: _mk_zeros2, 'ndarr', True),
    't_empty': (lambda: (), 'tup', False),
    'obj_val': (lambda: AccObj(), 'accobj', False),          # value seed: rxsci must deep copy it per key although it is hashable
    'obj_fac': (lambda: AccObj, 'accobj', True),
    'tupobj_val': (lambda: (AccObj(), 0), 'tupobj', False),
    'fac5': (lambda: (lambda: 5), 'optfac', True),
    'fac_none': (lambda: (lambda: None), 'optfac', True),
}


def _mk_zeros2():
    return _np.zeros(2)


def fresh_seed(name):
    """A fresh seed value as the *model* uses it (never shared)."""
    obj, _, is_factory = SEEDS[name]
    s = obj()
    return s() if is_factory else s


def seeds_for(state_type):
    return sorted(n for n, (_, st, _f) in SEEDS.items() if st == state_type)


def _append_end(a):
    a.append(-1)
    return a


def _mark_end(a):
    a[-1] = a.get(-1, 0) + 1
    return a


# terminators keep the state's type (state lives in typed arrays)
TERMS = {
    'neg_t': (lambda a: -a, 'int'),
    'inc_t': (lambda a: a + 100, 'int'),
    'fhalf_t': (lambda a: a / 2, 'float'),
    'not_t': (lambda a: not a, 'bool'),
    'rev_t': (lambda a: list(reversed(a)), 'list'),
    'same_t': (lambda a: a, 'dict'),
    'tail_t': (lambda a: a + (-1,), 'tup'),
    'none_t': (lambda a: None if a is not None and a % 2 else a, 'optfac'),
    'append_end_t': (_append_end, 'list'),      # mutates its argument in place and returns it
    'mark_t': (_mark_end, 'dict'),
}


# terminators that mutate their argument in place (the last streamed value is the same object: aliasing)
MUT_TERMS = {'append_end_t', 'mark_t'}


def terms_for(state_type):
    return sorted(n for n, (_, st) in TERMS.items() if st == state_type)


# what item type a scan state becomes once emitted
STATE_ITEM_TYPE = {'ndarr': 'npfloat', 'int': 'int', 'float': 'float', 'bool': 'any', 'list': 'list',
                   'dict': 'any', 'deque': 'any', 'tup': 'any', 'tup2': 'any', 'optfac': 'optint', 'accobj': 'any', 'tupobj': 'any'}


# ---- functions handed to rxsci by the program builder (kept here so that an exception raised inside them is
# ---- recognised as "the system called a user function with something foreign", see core.innermost_in_verif)
from datetime import datetime as _dt, timedelta as _td
_EPOCH = _dt(2020, 1, 1)


def time_of(r):
    return r.t


def time_of_dt(r):
    return _EPOCH + _td(seconds=r.t)


def time_of_hours(r):
    return _EPOCH + _td(hours=r.t)


def time_of_days(r):
    return _EPOCH + _td(days=r.t, microseconds=r.t)


def time_of_np_int(r):
    return _np.int64(r.t)                 # comparisons on numpy scalars answer numpy.bool_


def time_of_np_uint(r):
    return _np.uint64(r.t)          # an unsigned counter: a subtraction of a later from an earlier timestamp would wrap around


def time_of_np_float(r):
    return _np.float64(r.t)


def time_of_np_dt64(r):
    return _np.datetime64('2020-01-01T00:00:00') + _np.timedelta64(int(r.t), 's')


class FalsyFn(object):
    """wraps a user function in a callable object whose truth value is False (e.g. a memoising dict subclass that is still empty)"""
    def __init__(self, fn):
        self.fn = fn

    def __call__(self, *a):
        return self.fn(*a)

    def __len__(self):
        return 0


class FalsyCloser(object):
    """a closing_mapper that is a callable object with a false truth value (it has a length, and it is empty)"""
    def __call__(self, r):
        return closing_of(r)

    def __len__(self):
        return 0


def closing_of(r):
    return r.c


def not7(i):
    """assert_ predicate that fails on the value 7 (a fatal error in the middle of a stream)"""
    v = i.v if isinstance(i, Rec) else i
    return not (type(v) is int and v == 7)


ASSERT_PREDS = {'not7': not7}


def always_true(i):
    return True


def noop(i):
    return None


def noop_any(*a):
    """a callback for do_action's on_completed / on_create / on_error (called with a key, an error, or nothing)"""
    return None


def const_of(val, e):
    return val


def time_of_np_arr0(r):
    return _np.array(r.t)           # a 0-d numpy array: a mutable number (+= changes it in place)


def star_rec(fn):
    def star(k, n, v, t, c):
        return fn(Rec(k, n, v, t, c))
    return star


def error_same(e):
    return e


def error_to_rec(e):
    return Rec(e.args[1], e.args[2], -1, 0, False)
