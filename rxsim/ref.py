"""Reference semantics (DESIGN.md Appendix A) and the local refinement checker.

Every model maps what was *observed* at an operator's input tap (one key
lifetime) to what must appear at its output tap, so models never compose and a
failure names the operator.  Models are written from the operators'
documentation / the property texts, a few lines each.
"""
import math
from array import array
from collections import deque

from . import funcs as F
from .core import canon
from .pipesim import lifetimes, plain_life
from .program import walk, WINDOWS, MATH

END = -1


class Finding(object):
    __slots__ = ('kind', 'op', 'path', 'detail')

    def __init__(self, kind, op, path, detail):
        self.kind = kind
        self.op = op
        self.path = path
        self.detail = detail

    def __repr__(self):
        return 'Finding(%s, %s, %s, %r)' % (self.kind, self.op, self.path, self.detail)


def decanon(c):
    if c is None or isinstance(c, int):
        return c
    tag = c[0]
    if tag == 'f':
        return float.fromhex(c[1])
    if tag == 'b':
        return c[1]
    if tag == 's':
        return c[1]
    if tag == 't':
        return tuple([decanon(e) for e in c[1:]])
    if tag == 'l':
        return [decanon(e) for e in c[1:]]
    if tag == 'nt':
        if c[1] == 'Rec':
            return F.Rec(*[decanon(e) for e in c[2:]])
        return tuple([decanon(e) for e in c[2:]])
    if tag == 'a':
        return array(c[1], [decanon(e) for e in c[2:]])
    if tag == 'dq':
        return deque([decanon(e) for e in c[1:]])
    if tag == 'd':
        return dict((decanon(k), decanon(v)) for k, v in c[1:])
    if tag == 'by':
        return bytes.fromhex(c[1])
    if tag == 'np':
        import numpy as np
        v = decanon(c[3])
        return np.array(v, dtype=c[2]) if c[1] == 'ndarray' else np.dtype(c[2]).type(v)
    if tag == 'o' and c[1] == 'AccObj':
        o = F.AccObj()
        o.n, o.total, o.seen = decanon(c[2])
        return o
    return c


def close(a, b, tol=1e-9):
    """canon-form equality with a relative/absolute tolerance on floats."""
    if a == b:
        return True
    if isinstance(a, tuple) and isinstance(b, tuple):
        if len(a) != len(b):
            return False
        if a and a[0] == 'f' and b[0] == 'f' and len(a) == 2:
            x, y = float.fromhex(a[1]), float.fromhex(b[1])
            if math.isnan(x) or math.isnan(y):
                return math.isnan(x) and math.isnan(y)
            return abs(x - y) <= tol * max(1.0, abs(x), abs(y))
        return all(close(x, y, tol) for x, y in zip(a, b))
    return False


# ---------------------------------------------------------------------------
# per-key models: (node, values, ended) -> [(index | END, canon value)]
# ---------------------------------------------------------------------------

def _num(node, v):
    k = node.get('key')
    return F.MAPS[k][0](v) if k else v


def _clip(node, v):
    lo, hi = node.get('lo'), node.get('hi')
    if hi is not None and v > hi:
        v = hi
    if lo is not None and v < lo:
        v = lo
    return v


def m_scanlike(vals, ended, step, seed, reduce, term=None, project=lambda s: s):
    out = []
    s = seed()
    for i, v in enumerate(vals):
        s = step(s, v)
        if not reduce:
            out.append((i, canon(project(s))))
    if ended:
        if term is not None:
            s = term(s)
            if not reduce:
                out.append((END, canon(project(s))))
        if reduce:
            out.append((END, canon(project(s))))
    return out


def _welford(s, x):
    m, q, k = s
    k += 1
    if m is None:
        return (x, 0.0, k)
    d = x - m
    m2 = m + d / k
    return (m2, q + d * (x - m2), k)


def model(node, vals, ended):
    op = node['op']
    if op == 'map':
        f = F.MAPS[node['fn']][0]
        return [(i, canon(f(v))) for i, v in enumerate(vals)]
    if op == 'starmap':
        if node.get('site'):
            f = F.MAPS[node['fn']][0]
            return [(i, canon(f(v))) for i, v in enumerate(vals)]
        f = F.STARS[node['fn']][0]
        return [(i, canon(f(*v))) for i, v in enumerate(vals)]
    if op in ('identity', 'do_action', 'assert_', 'assert_1', 'progress'):
        return [(i, canon(v)) for i, v in enumerate(vals)]
    if op == 'clip':
        return [(i, canon(_clip(node, v))) for i, v in enumerate(vals)]
    if op == 'fill_none':
        return [(i, canon(node['value'] if v is None else v)) for i, v in enumerate(vals)]
    if op == 'filter':
        p = F.PREDS[node['fn']][0]
        return [(i, canon(v)) for i, v in enumerate(vals) if p(v)]
    if op == 'flat_map':
        return [(i, canon(x)) for i, v in enumerate(vals) for x in v]
    if op == 'scan':
        acc = F.ACCS[node['fn']][0]
        term = F.TERMS[node['term']][0] if node.get('term') else None
        return m_scanlike(vals, ended, acc, lambda: F.fresh_seed(node['seed']), bool(node.get('reduce')), term)
    red = bool(node.get('reduce'))
    if op == 'count':
        return m_scanlike(vals, ended, lambda s, v: s + 1, lambda: 0, red)
    if op == 'sum':
        return m_scanlike(vals, ended, lambda s, v: s + _num(node, v), lambda: 0.0, red)
    if op == 'mean':
        return m_scanlike(vals, ended, lambda s, v: (s[0] + _num(node, v), s[1] + 1), lambda: (0, 0), red,
                          project=lambda s: s[0] / s[1])
    if op == 'min':
        return m_scanlike(vals, ended, lambda s, v: _num(node, v) if s is None or _num(node, v) < s else s, lambda: None, red)
    if op == 'max':
        return m_scanlike(vals, ended, lambda s, v: _num(node, v) if s is None or _num(node, v) > s else s, lambda: None, red)
    if op in ('variance', 'stddev'):
        def proj(s):
            var = 0.0 if s[2] < 2 else s[1] / (s[2] - 1)
            return math.sqrt(var) if op == 'stddev' else var
        return m_scanlike(vals, ended, lambda s, v: _welford(s, _num(node, v)), lambda: (None, 0.0, 0), red, project=proj)
    if op in ('fvariance', 'fstddev'):
        if not red:
            return None   # streaming population variance: belongs to C12 (not a simulation target), unchecked
        if not ended:
            return []
        xs = [_num(node, v) for v in vals]
        if xs:
            mu = sum(xs) / len(xs)
            var = sum((x - mu) ** 2 for x in xs) / len(xs)
        else:
            var = 0.0
        return [(END, canon(math.sqrt(var) if op == 'fstddev' else var))]
    if op == 'dist_update':
        return None   # no model of the histogram itself; covered by the streaming/reduce relation and the differentials
    if op == 'sort':
        if not ended:
            return []
        kf = F.MAPS[node['key']][0] if node.get('key') else (lambda v: v)
        return [(END, canon(x)) for x in sorted(vals, key=kf, reverse=bool(node.get('reverse')))]
    if op == 'to_deque':
        if not ended:
            return []
        if node.get('extend'):
            return [(END, canon(x)) for v in vals for x in v]
        return [(END, canon(v)) for v in vals]
    if op == 'first':
        return [(0, canon(vals[0]))] if vals else []
    if op == 'take':
        return [(i, canon(v)) for i, v in enumerate(vals[:node['n']])]
    if op == 'last':
        return [(END, canon(vals[-1]))] if (ended and vals) else []
    if op == 'to_list':
        return [(END, canon(list(vals)))] if ended else []
    if op == 'to_array':
        return [(END, canon(array(node['tc'], vals)))] if ended else []
    if op in ('distinct', 'distinct_until_changed'):
        kf = F.KEYS[node['key']][0] if node.get('key') else (lambda v: v)
        out = []
        if op == 'distinct':
            seen = []
            for i, v in enumerate(vals):
                k = kf(v)
                if not any(k == s for s in seen):
                    seen.append(k)
                    out.append((i, canon(v)))
        else:
            prev = None
            for i, v in enumerate(vals):
                k = kf(v)
                if i == 0 or k != prev:
                    out.append((i, canon(v)))
                prev = k
        return out
    if op == 'lag':
        n = node['n']
        return [(i, canon((vals[max(0, i - n)], v))) for i, v in enumerate(vals)]
    if op == 'pad_start':
        if not vals:
            return []
        pv = node['value'] if node.get('value') is not None else vals[0]
        return [(0, canon(pv))] * node['size'] + [(i, canon(v)) for i, v in enumerate(vals)]
    if op == 'start_with':
        if not vals:
            return []
        return [(0, canon(p)) for p in node['padding']] + [(i, canon(v)) for i, v in enumerate(vals)]
    if op == 'pad_end':
        out = [(i, canon(v)) for i, v in enumerate(vals)]
        if ended and vals:
            pv = node['value'] if node.get('value') is not None else vals[-1]
            out += [(END, canon(pv))] * node['size']
        return out
    if op == 'batch':
        n = node['n']
        out = []
        for j in range(0, len(vals) - n + 1, n):
            out.append((j + n - 1, canon(list(vals[j:j + n]))))
        rest = len(vals) % n
        if ended and rest:
            out.append((END, canon(list(vals[len(vals) - rest:]))))
        return out
    raise KeyError('no model for %s' % op)


# ---------------------------------------------------------------------------
# window models: (node, values) -> [(create_idx, [item idx...], end_idx | END)]
# in creation order; completions happen in list order for equal end points
# ---------------------------------------------------------------------------

def wmodel(node, vals, keys=None):
    op = node['op']
    n = len(vals)
    if op == 'group_by':
        kf = F.KEYS[node['key']][0]
        groups = []   # (key, create_idx, idxs)
        for i, v in enumerate(vals):
            k = keys[i] if keys is not None else kf(v)
            for g in groups:
                if g[0] == k:
                    g[2].append(i)
                    break
            else:
                groups.append((k, i, [i]))
        return [(g[1], g[2], END) for g in groups]
    if op == 'roll':
        w, s = node['window'], node['stride']
        out = []
        j = 0
        while j * s < n:
            a = j * s
            idxs = list(range(a, min(a + w, n)))
            out.append((a, idxs, a + w - 1 if a + w - 1 < n else END))
            j += 1
        return out
    if op == 'split':
        kf = F.KEYS[node['key']][0]
        out = []
        prev = None
        for i, v in enumerate(vals):
            k = keys[i] if keys is not None else kf(v)
            if i == 0 or k != prev:
                if out:
                    out[-1] = (out[-1][0], out[-1][1], i)
                out.append((i, [i], END))
            else:
                out[-1][1].append(i)
            prev = k
        return out
    if op == 'time_split':
        A, I = node.get('active'), node.get('inactive')
        closing, include = bool(node.get('closing')), node.get('include', True) is True or node.get('include') == 'incl-any'
        out = []
        cur = None
        ref = last = None
        for i, r in enumerate(vals):
            t = r.t
            if cur is None:
                cur = [i, [], END]
                out.append(cur)
                ref = last = t
            if (A is not None and t >= ref + A) or (I is not None and t >= last + I):
                cur[2] = i
                cur = [i, [i], END]
                out.append(cur)
                ref = last = t
            elif closing and r.c is True:
                ref = last = t
                if include:
                    cur[1].append(i)
                    cur[2] = i
                    cur = [i, [], END]
                    out.append(cur)
                else:
                    cur[2] = i
                    cur = [i, [i], END]
                    out.append(cur)
            else:
                last = t
                cur[1].append(i)
        return [tuple(x) for x in out]
    raise KeyError(op)


# ---------------------------------------------------------------------------
# local refinement checker
# ---------------------------------------------------------------------------

TOL_OPS = MATH | {'scan'}


def _identity_equal(c):
    """does the canonical value contain an object whose equality is identity (no __eq__: AccObj, Plain, unknown objects)?  The
    snapshots do not record identity - two records may be the same object delivered twice (e.g. through two tee_map branches) -
    so an operator that COMPARES such items cannot be modelled from them."""
    if isinstance(c, tuple):
        if c and c[0] in ('o', 'obj'):
            return True
        return any(_identity_equal(e) for e in c)
    return False


def _cmp_life(node, path, inl, outl, ended, findings, mode):
    if node['op'] in ('distinct', 'distinct_until_changed') and node.get('key') is None and \
            any(_identity_equal(v) for _, _, v in inl.items):
        return
    vals = [decanon(v) for _, _, v in inl.items]
    exp = model(node, vals, ended)
    if exp is None:
        return
    op = node['op']
    got = outl.items
    ev = [c for _, c in exp]
    gv = [c for _, _, c in got]
    eq = (lambda a, b: close(a, b)) if op in TOL_OPS else (lambda a, b: a == b)
    if mode == 'plain' and outl.eg is None and len(gv) < len(ev):
        # an ordinary observable whose subscriber went away (take/first downstream completed and disposed
        # the chain): what was delivered must be a prefix of the expected output
        exp = exp[:len(gv)]
        ev = ev[:len(gv)]
    if len(ev) != len(gv) or not all(eq(a, b) for a, b in zip(ev, gv)):
        findings.append(Finding('values', op, path, {'node': node, 'input': [v for _, _, v in inl.items], 'ended': ended,
                                                     'expected': ev, 'got': gv, 'key': inl.key}))
        return
    es = [(inl.items[i][1] if i != END else inl.eseq) for i, _ in exp]
    gs = [s for _, s, _ in got]
    if es != gs:
        findings.append(Finding('stamps', op, path, {'node': node, 'input': [(s, v) for _, s, v in inl.items],
                                                     'end_event': inl.eseq, 'expected_events': es, 'got_events': gs,
                                                     'values': gv, 'key': inl.key}))


def check_simple(node, path, in_tap, out_tap, ctx, mode, findings):
    rin = ctx.taps.get(in_tap, [])
    rout = ctx.taps.get(out_tap, [])
    if mode == 'plain':
        inl, _ = plain_life(rin)
        outl, _ = plain_life(rout)
        _cmp_life(node, path, inl, outl, inl.eg is not None, findings, mode)
        return
    ins, p1 = lifetimes(rin)
    outs, p2 = lifetimes(rout)
    if p2 and not p1:
        findings.append(Finding('lifetimes', node['op'], path, {'problems': p2[:5]}))
        return
    if [l.key for l in ins] != [l.key for l in outs]:
        findings.append(Finding('lifetimes', node['op'], path, {'in': [l.key for l in ins], 'out': [l.key for l in outs]}))
        return
    for a, b in zip(ins, outs):
        if a.errors or b.errors:
            continue
        _cmp_life(node, path, a, b, a.eg is not None, findings, mode)


def check_window(node, path, i, in_tap, out_tap, ctx, findings):
    op = node['op']
    head = '%s/%d:in/0' % (path, i)
    tail = '%s/%d:in/%d' % (path, i, len(node['inner']))
    parents, _ = lifetimes(ctx.taps.get(in_tap, []))
    subs, sp = lifetimes(ctx.taps.get(head, []))
    if sp:
        findings.append(Finding('window-protocol', op, path, {'problems': sp[:5]}))
        return
    used = 0
    recorded = None
    if (op == 'group_by' and node.get('key') == 'rr3') or (op == 'split' and node.get('key') == 'cnt3'):
        # impure key mapper: its recorded answers, one per item in arrival order (a mapper asked twice for one item, or
        # not at all, shows up as a different number of answers than items)
        calls = ctx.extra.get('keycalls', {}).get('%s/%d' % (path, i), [])
        arrivals = sorted((g, P.key) for P in parents for g, _, _ in P.items)
        if len(calls) != len(arrivals):
            findings.append(Finding('window-items', op, path, {'node': _strip(node), 'note': 'key_mapper was called %d times for %d items' % (
                len(calls), len(arrivals))}))
            return
        recorded = dict((g, calls[n]) for n, (g, _) in enumerate(arrivals))
    for P in parents:
        if P.errors:
            continue
        mine = [s for s in subs if s.key[1] == P.key and s.cg > P.cg and (P.eg is None or s.cg < P.eg)]
        used += len(mine)
        vals = [decanon(v) for _, _, v in P.items]
        exp = wmodel(node, vals, [recorded[g] for g, _, _ in P.items] if recorded is not None else None)
        ended = P.eg is not None
        if op == 'time_split':
            # the text constrains which window each item belongs to; empty windows are implementation detail
            exp = [e for e in exp if e[1]]
            mine = [s for s in mine if s.items]
            if node.get('closing') and node.get('include', True) not in (True, False):
                # the flag was given as 1 / 0 / numpy.True_: whether that counts as "include" is not specified, but
                # every item must still be in exactly one window, in order
                flat = [v for s in mine for v in s.values()]
                if flat != [v for _, _, v in P.items]:
                    findings.append(Finding('window-items', op, path, {'node': _strip(node), 'note': 'non-bool include flag: partition only',
                                                                       'input': [v for _, _, v in P.items], 'windows': [s.values() for s in mine]}))
                continue
        ei = [[P.items[j][2] for j in idxs] for _, idxs, _ in exp]
        gi = [s.values() for s in mine]
        if ei != gi:
            findings.append(Finding('window-items', op, path, {'node': _strip(node), 'input': [v for _, _, v in P.items],
                                                               'expected': ei, 'got': gi, 'key': P.key}))
            continue
        if op == 'time_split':
            # creation event of a non-empty window: not later than its first item; close: checked below
            bad = [k for k, (e, s) in enumerate(zip(exp, mine)) if s.cseq > P.items[e[1][0]][1]]
            if bad:
                findings.append(Finding('window-create', op, path, {'node': _strip(node), 'windows': bad}))
                continue
        else:
            ec = [P.items[c][1] for c, _, _ in exp]
            gc = [s.cseq for s in mine]
            if ec != gc:
                findings.append(Finding('window-create', op, path, {'node': _strip(node), 'expected_events': ec, 'got_events': gc,
                                                                    'input': [(s, v) for _, s, v in P.items]}))
                continue
        ee = [(P.items[e][1] if e != END else (P.eseq if ended else None)) for _, _, e in exp]
        ge = [s.eseq for s in mine]
        if ee != ge:
            findings.append(Finding('window-close', op, path, {'node': _strip(node), 'expected_events': ee, 'got_events': ge,
                                                               'input': [(s, v) for _, s, v in P.items], 'end_event': P.eseq}))
            continue
        # completion order: windows are closed in the order they were opened (equal close events)
        closed = [(s.eg, k) for k, s in enumerate(mine) if s.eg is not None]
        order = [k for _, k in sorted(closed)]
        if order != sorted(order, key=lambda k: (ge[k], k)):
            findings.append(Finding('window-close-order', op, path, {'node': _strip(node), 'order': order,
                                                                     'windows': gi, 'input': [v for _, _, v in P.items]}))
    # demux: tail records -> output records, parent's key, same order, same event
    tl = [(s, k[1], v) for _, s, kind, k, v in ctx.taps.get(tail, []) if kind == 'N']
    ol = [(s, k, v) for _, s, kind, k, v in ctx.taps.get(out_tap, []) if kind == 'N']
    if tl != ol:
        findings.append(Finding('demux', op, path, {'node': _strip(node), 'tail': tl[:40], 'out': ol[:40]}))
    else:
        _, op_ = lifetimes(ctx.taps.get(out_tap, []))
        _, ip_ = lifetimes(ctx.taps.get(in_tap, []))
        if op_ and not ip_:
            findings.append(Finding('demux-protocol', op, path, {'node': _strip(node), 'problems': op_[:5]}))


def _strip(node):
    n = dict(node)
    if 'inner' in n:
        n['inner'] = '...'
    if 'branches' in n:
        n['branches'] = '...'
    return n


def join_model(join, n, recs):
    """recs: [(branch, seq, canon value)] in emission order -> [(seq, canon tuple/value)]"""
    out = []
    if join == 'merge':
        return [(s, v) for _, s, v in recs]
    latest = [None] * n
    has = [False] * n
    for b, s, v in recs:
        latest[b] = v
        has[b] = True
        if join == 'zip':
            if all(has):
                out.append((s, ('t',) + tuple(latest)))
                latest = [None] * n
                has = [False] * n
        else:
            out.append((s, ('t',) + tuple(latest)))
    return out


def check_tee(node, path, i, in_tap, out_tap, ctx, mode, findings):
    bs = node['branches']
    n = len(bs)
    tails = ['%s/%d:b%d/%d' % (path, i, bi, len(b)) for bi, b in enumerate(bs)]
    rin = ctx.taps.get(in_tap, [])
    in_g = [g for g, _, kind, _, _ in rin]   # every input record (items, creations, completions) is a cause

    def cause(g):
        # ordinal of the latest input item recorded before g
        lo, hi = 0, len(in_g)
        while lo < hi:
            mid = (lo + hi) // 2
            if in_g[mid] < g:
                lo = mid + 1
            else:
                hi = mid
        return lo
    if mode == 'plain':
        recs = []
        for bi, t in enumerate(tails):
            for pos, (g, s, kind, k, v) in enumerate(ctx.taps.get(t, [])):
                if kind == 'N':
                    recs.append((cause(g), bi, g, s, v))
        recs.sort(key=lambda r: (r[0], r[1], r[2]))
        exp = join_model(node['join'], n, [(b, s, v) for _, b, _, s, v in recs])
        got = [(s, v) for _, s, kind, _, v in ctx.taps.get(out_tap, []) if kind == 'N']
        _cmp_join(node, path, exp, got, None, findings)
        return
    outs, p2 = lifetimes(ctx.taps.get(out_tap, []))
    if p2:
        findings.append(Finding('join-protocol', 'tee_map', path, {'problems': p2[:5]}))
        return
    blives = [lifetimes(ctx.taps.get(t, []))[0] for t in tails]
    for bl in blives:
        if [l.key for l in bl] != [l.key for l in outs]:
            findings.append(Finding('join-protocol', 'tee_map', path, {'branch_keys': [l.key for l in bl][:20],
                                                                       'out_keys': [l.key for l in outs][:20]}))
            return
    for li, O in enumerate(outs):
        recs = []
        for bi in range(n):
            for g, s, v in blives[bi][li].items:
                recs.append((cause(g), bi, g, s, v))
        recs.sort(key=lambda r: (r[0], r[1], r[2]))
        exp = join_model(node['join'], n, [(b, s, v) for _, b, _, s, v in recs])
        got = [(s, v) for _, s, v in O.items]
        _cmp_join(node, path, exp, got, (O.key, li), findings)


def _cmp_join(node, path, exp, got, where, findings):
    if [v for _, v in exp] != [v for _, v in got]:
        findings.append(Finding('join-values', 'tee_map', path, {'join': node['join'], 'branches': len(node['branches']),
                                                                 'expected': [v for _, v in exp][:30], 'got': [v for _, v in got][:30],
                                                                 'lifetime': where}))
    elif [s for s, _ in exp] != [s for s, _ in got]:
        findings.append(Finding('join-stamps', 'tee_map', path, {'join': node['join'], 'expected_events': [s for s, _ in exp][:30],
                                                                 'got_events': [s for s, _ in got][:30], 'lifetime': where}))


def local_check(program, ctx, mode='mux', only=None):
    """Runs every applicable model against the records of one run."""
    findings = []
    for node, path, in_tap, out_tap, i in walk(program):
        op = node['op']
        if only is not None and op not in only:
            continue
        if op in WINDOWS:
            check_window(node, path, i, in_tap, out_tap, ctx, findings)
        elif op == 'tee_map':
            check_tee(node, path, i, in_tap, out_tap, ctx, mode, findings)
        else:
            check_simple(node, path, in_tap, out_tap, ctx, mode, findings)
    return findings
