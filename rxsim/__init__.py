"""rxsim - deterministic simulation with fault injection for maki-nage/rxsci.

Everything here runs the *real* rxsci / RxPY code of /repo's working tree in
one process under a seeded scheduler; see /verif/DESIGN.md.
"""
GEN_VERSION = 2
