"""Workload generation: party scripts and their seeded schedule.

A party is one logical stream (a key).  The seeded discrete-event scheduler
(core.resolve_schedule) decides which party is resumed next; the result is the
resolved event list stored in the case.
"""
from .core import resolve_schedule
from .funcs import Rec

STYLES = ('uniform', 'bursty', 'roundrobin', 'starved', 'sequential', 'sametime')


def gen_events(rng, parties, max_events, min_len=0, style=None, values='small',
               timeouts=(None, None), p_close=0.0):
    """Returns (events, style).  events: [{"t","p","n","v","c"}]."""
    style = style or rng.choice(STYLES)
    k = parties
    if k == 0:
        return [], style
    # lengths
    lens = []
    budget = max_events
    for p in range(k):
        hi = max(min_len, min(budget, max(1, max_events // max(1, k) * 2)))
        n = rng.randint(min_len, hi) if hi >= min_len else min_len
        if rng.random() < 0.15:
            n = min_len
        lens.append(n)
        budget = max(0, budget - n)
    active, inactive = timeouts
    special = [0, 0, 1, 1, 2]
    for x in (active, inactive):
        if x is not None:
            special += [x - 1, x, x, x + 1]
    if active is not None and inactive is not None:
        special += [max(0, active - inactive), active + inactive]
    special += [rng.randint(3, 12)]
    special = [d for d in special if d >= 0]
    scripts = {}
    offset = 0
    for p in range(k):
        script = []
        span = 0
        for n in range(lens[p]):
            if style == 'uniform':
                d = rng.choice(special)
            elif style == 'bursty':
                d = 0 if rng.random() < 0.7 else rng.choice(special) + 5
            elif style == 'roundrobin':
                d = 1
            elif style == 'starved':
                d = rng.choice(special) if p else (40 if n == 0 else rng.choice([0, 1]))
            elif style == 'sequential':
                d = rng.choice(special)
            else:  # sametime
                d = 0
            own = d
            if n == 0 and style == 'sequential':
                d += offset
            if values == 'small':
                v = rng.randint(0, 9)
            elif values == 'runs':
                v = n // rng.choice([1, 2, 3])
            elif values == 'inc':
                v = n
            elif values == 'dups':
                v = rng.choice([0, 1, 1, 2])
            elif values == 'huge':      # beyond 32 bits (typed state arrays), still far from the int64 limit when summed
                v = rng.choice([2 ** 31 - 1, 2 ** 31, 2 ** 32 + 5, rng.randint(2 ** 31, 2 ** 40), rng.randint(0, 9)])
            else:
                v = rng.randint(-50, 50)
            script.append((d, [v, 1 if rng.random() < p_close else 0]))
            span += own
        if style == 'sequential':
            offset += span + 1     # the next party starts when this one has finished (linear, not doubling)
        scripts[p] = script
    evs = resolve_schedule(rng, scripts)
    out = []
    for e in evs:
        out.append({'t': e['t'], 'p': e['p'], 'n': e['n'], 'v': e['v'][0], 'c': e['v'][1]})
    return out, style


def mk_rec(e):
    return Rec(e['p'], e['n'], e['v'], e['t'], bool(e.get('c')))


def skew(rng, events, p=0.2, maxback=5):
    """Clock skew / backward jumps: some items carry a timestamp older than their predecessor's."""
    out = []
    n = 0
    for e in events:
        e = dict(e)
        if rng.random() < p:
            e['t'] = max(0, e['t'] - rng.randint(1, maxback))
            n += 1
        out.append(e)
    return out, n


def renumber(events, monotonic=True):
    """Re-derive per-party ordinals and keep time non-decreasing after a
    shrinker removed or reordered events."""
    cnt = {}
    out = []
    t = 0
    for e in events:
        e = dict(e)
        e['n'] = cnt.get(e['p'], 0)
        cnt[e['p']] = e['n'] + 1
        if monotonic:
            if e['t'] < t:
                e['t'] = t
            t = e['t']
        out.append(e)
    return out


def interleaving_degree(events):
    """Number of adjacent event pairs that belong to different parties."""
    return sum(1 for a, b in zip(events, events[1:]) if a['p'] != b['p'])
