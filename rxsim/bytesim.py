"""Simulated byte/character transport and simulated files.

The *schedule* here is how a stream is cut into the chunks the consumer sees
(arbitrary cut points, empty segments, 1-unit segments, everything coalesced),
where it is truncated (EOF / crash of the writer), and how many units each
read() of a file returns (short reads are legal for any file-like object).
"""
import io

import rx
from rx.subject import Subject

from .core import Ctx, canon, WORK, WORK_CAP, BudgetExceeded


def gen_cuts(rng, n, hot=()):
    """A cut schedule for a stream of n units: sorted offsets in [0, n], repeats = empty segments.
    `hot` are offsets worth cutting at or next to (prefix/payload borders, newlines, multi-byte sequences)."""
    style = rng.choice(['none', 'single', 'few', 'many', 'every', 'hot', 'hot', 'empties'])
    cuts = []
    if n == 0:
        return [0] * rng.choice([0, 0, 1, 2])
    if style == 'single':
        cuts = [rng.randint(0, n)]
    elif style == 'few':
        cuts = [rng.randint(0, n) for _ in range(rng.randint(2, 4))]
    elif style == 'many':
        cuts = [rng.randint(0, n) for _ in range(rng.randint(5, min(40, n + 5)))]
    elif style == 'every':
        if n <= 400:
            cuts = list(range(1, n))
        else:
            a = rng.randint(0, n - 300)
            cuts = list(range(a, a + 300))
    elif style == 'hot' and hot:
        for h in hot:
            if rng.random() < 0.5:
                cuts.append(min(n, max(0, h + rng.choice([-1, 0, 0, 1]))))
        cuts = cuts[:60]
    elif style == 'empties':
        base = [rng.randint(0, n) for _ in range(rng.randint(1, 3))]
        cuts = base + base + [0, n]
    return sorted(cuts)


def cut(stream, cuts, truncate=None):
    """Segments of `stream` (bytes or str) under the schedule."""
    if truncate is not None:
        stream = stream[:truncate]
    n = len(stream)
    out = []
    prev = 0
    for c in cuts:
        c = min(max(c, prev), n)
        out.append(stream[prev:c])
        prev = c
    out.append(stream[prev:])
    return out


def drive(chunks, operator, end='complete'):
    """Push the chunks through `operator` (a real rxsci operator) from a Subject, one chunk per event.
    Returns (items, terminal, per-item event numbers)."""
    subject = Subject()
    items = []
    stamps = []
    term = []
    seq = [0]

    def on_next(i):
        items.append(i)
        stamps.append(seq[0])
    subject.pipe(operator).subscribe(on_next=on_next, on_error=lambda e: term.append(('error', e)),
                                     on_completed=lambda: term.append(('completed',)))
    try:
        for c in chunks:
            seq[0] += 1
            subject.on_next(c)
            if term:
                break
        seq[0] += 1
        if not term:
            if end == 'complete':
                subject.on_completed()
            elif end == 'error':
                subject.on_error(IOError('transport failed'))
    except Exception as e:     # escaped the pipeline instead of being delivered through on_error: a behaviour of the SUT
        from .core import innermost_in_verif
        if innermost_in_verif(e):
            raise
        term.insert(0, ('escaped', e))
    return items, (term[0] if term else None), stamps


def collect(observable):
    items = []
    term = []
    observable.subscribe(on_next=items.append, on_error=lambda e: term.append(('error', e)),
                         on_completed=lambda: term.append(('completed',)))
    return items, (term[0] if term else None)


# ---------------------------------------------------------------------------
# simulated disk
# ---------------------------------------------------------------------------

class SimFile(object):
    """File object over an in-memory image.  read(size) returns at most `size`
    units; the actual length comes from the short-read schedule."""

    def __init__(self, disk, name, mode, encoding):
        self.disk = disk
        self.name = name
        self.mode = mode
        self.binary = 'b' in mode
        self.encoding = encoding or 'utf-8'
        self.closed = False
        self.pos = 0
        self.pending = []
        if 'w' in mode:
            disk.files[name] = b''
            self.data = None
        elif 'a' in mode:
            disk.files.setdefault(name, b'')      # append: created when missing, never truncated
            self.data = None
        else:
            if name not in disk.files:
                raise FileNotFoundError(name)
            raw = disk.files[name]
            self.data = raw if self.binary else raw.decode(self.encoding)

    def __enter__(self):
        return self

    def __exit__(self, *a):
        self.close()
        return False

    def close(self):
        if ('w' in self.mode or 'a' in self.mode) and not self.closed:
            self.flush()
        if not self.closed:
            self.disk.closes += 1
        self.closed = True

    def write(self, data):
        if self.closed:
            raise ValueError('I/O operation on closed file')
        if self.binary:
            if isinstance(data, str):
                raise TypeError("a bytes-like object is required, not 'str'")
            raw = bytes(data)
        else:
            if not isinstance(data, str):
                raise TypeError('write() argument must be str, not %s' % type(data).__name__)
            raw = data.encode(self.encoding)
        self.pending.append(raw)          # buffered, like a real file object: on the disk image only after flush/close
        self.disk.writes += 1
        return len(data)

    def flush(self):
        if self.pending:
            self.disk.files[self.name] += b''.join(self.pending)
            self.pending = []

    def read(self, size=-1):
        if self.closed:
            raise ValueError('I/O operation on closed file')
        self.disk.reads += 1
        WORK[0] += 8
        if WORK[0] > WORK_CAP * 4:
            raise BudgetExceeded()
        rest = len(self.data) - self.pos
        if size is None or size < 0:
            n = rest
        else:
            n = min(size, rest)
            sched = self.disk.short_reads
            if sched and n > 0:
                want = sched[self.disk.read_idx % len(sched)]
                self.disk.read_idx += 1
                if 0 < want < n:
                    n = want
                    self.disk.short += 1
        out = self.data[self.pos:self.pos + n]
        self.pos += n
        return out


class SimDisk(object):
    def __init__(self, short_reads=()):
        self.files = {}
        self.short_reads = list(short_reads)
        self.read_idx = 0
        self.reads = 0
        self.writes = 0
        self.short = 0
        self.closes = 0
        self.opens = 0

    def open(self, filename, mode='r', encoding=None):
        self.opens += 1
        return SimFile(self, filename, mode or 'r', encoding)


def drive_reused_buffer(chunks, operator):
    """Like drive(), but every chunk is handed over as a memoryview of ONE bytearray that the producer overwrites as soon as
    on_next has returned (the readinto() idiom): an operator that keeps a reference to a chunk instead of consuming it
    reads garbage later.  Returns (items, terminal)."""
    subject = Subject()
    items = []
    term = []
    subject.pipe(operator).subscribe(on_next=lambda i: items.append(bytes(i)), on_error=lambda e: term.append(('error', e)),
                                     on_completed=lambda: term.append(('completed',)))
    buf = bytearray(max([len(c) for c in chunks] + [1]))
    try:
        for c in chunks:
            n = len(c)
            buf[:n] = c
            subject.on_next(memoryview(buf)[:n])
            buf[:n] = b'\xaa' * n
            if term:
                break
        if not term:
            subject.on_completed()
    except Exception as e:
        from .core import innermost_in_verif
        if innermost_in_verif(e):
            raise
        term.append(('escaped', e))
    return items, (term[0] if term else None)


def merge_order(rng, lens):
    """A seeded interleaving of K streams: list of stream indices, each stream i appearing lens[i] + 1 times
    (its chunks, then its completion)."""
    pool = []
    for i, n in enumerate(lens):
        pool += [i] * (n + 1)
    rng.shuffle(pool)
    return pool


def drive_concurrent(chunk_lists, make_operator, order):
    """K independent streams, each through its *own* instance of the real operator, alive at the same time; the
    seeded order decides whose next chunk (or completion) is delivered.  Returns [(items, terminal)] per stream.
    A module-level or otherwise shared piece of state in the operator shows up as cross-talk."""
    k = len(chunk_lists)
    subjects = [Subject() for _ in range(k)]
    outs = [[] for _ in range(k)]
    terms = [[] for _ in range(k)]
    for i in range(k):
        subjects[i].pipe(make_operator(i)).subscribe(
            on_next=outs[i].append,
            on_error=(lambda e, i=i: terms[i].append(('error', e))),
            on_completed=(lambda i=i: terms[i].append(('completed',))))
    pos = [0] * k
    try:
        for i in order:
            if terms[i]:
                continue
            if pos[i] < len(chunk_lists[i]):
                subjects[i].on_next(chunk_lists[i][pos[i]])
                pos[i] += 1
            else:
                subjects[i].on_completed()
    except Exception as e:
        from .core import innermost_in_verif
        if innermost_in_verif(e):
            raise
        for i in range(k):
            if not terms[i]:
                terms[i].append(('escaped', e))
    return [(outs[i], terms[i][0] if terms[i] else None) for i in range(k)]


def dump_concurrently(item_lists, dump_operators, order):
    """K writers alive at the same time, each fed from its own hot Subject; `order` (merge_order) decides whose next
    item (or completion) is delivered.  Returns the list of terminals [('completed',) | ('error', e) | None]."""
    k = len(item_lists)
    subjects = [Subject() for _ in range(k)]
    terms = [None] * k

    def done(i):
        terms[i] = ('completed',)

    def failed(i, e):
        terms[i] = ('error', e)
    for i in range(k):
        subjects[i].pipe(dump_operators[i]).subscribe(on_next=lambda _: None, on_error=(lambda e, i=i: failed(i, e)),
                                                      on_completed=(lambda i=i: done(i)))
    pos = [0] * k
    try:
        for i in order:
            if pos[i] < len(item_lists[i]):
                subjects[i].on_next(item_lists[i][pos[i]])
            elif pos[i] == len(item_lists[i]):
                subjects[i].on_completed()
            pos[i] += 1
    except Exception as e:
        from .core import innermost_in_verif
        if innermost_in_verif(e):
            raise
        for i in range(k):
            if terms[i] is None:
                terms[i] = ('escaped', e)
    return terms


def dump_then_load_on_completion(items, dump_operator, make_load, disk):
    """Pushes the items through `dump_operator` from a hot Subject (no trampoline) and, from inside the completion
    callback of that subscription, runs `make_load()` - 'an acknowledged write is readable': when the writer says it is
    done, everything must be on the (simulated) disk and the file closed.
    Returns (dump terminal, loaded items, load terminal, files still open at the moment of completion)."""
    subject = Subject()
    result = {'dump': None, 'items': [], 'load': None, 'open': None}

    def done():
        result['dump'] = ('completed',)
        result['open'] = disk.opens - disk.closes
        got, term = collect(make_load())
        result['items'], result['load'] = got, term

    def failed(e):
        result['dump'] = ('error', e)
    subject.pipe(dump_operator).subscribe(on_next=lambda i: None, on_error=failed, on_completed=done)
    try:
        for it in items:
            subject.on_next(it)
        subject.on_completed()
    except Exception as e:
        from .core import innermost_in_verif
        if innermost_in_verif(e):
            raise
        result['dump'] = ('escaped', e)
    return result['dump'], result['items'], result['load'], result['open']
