"""Simulator core: seeds, virtual clock + event heap, recording context,
boundary monitors (C03 protocol state machine), taps, drivers.

Nothing in this file draws from a PRNG while a case is *executed*; the PRNG is
used only while a case is *generated* (schedule resolution), so a case document
is a pure replay file.
"""
import hashlib
import heapq
import io
import contextlib
import json
import sys
from array import array
from collections import deque

import rx
from rx.subject import Subject
from rx.scheduler.periodicscheduler import PeriodicScheduler
from rx.disposable import Disposable, SingleAssignmentDisposable, CompositeDisposable

import rxsci as rs
import rxsci.mux.muxobservable as _muxobs
from rxsci.state.state_topology import ProbeStateTopology

MASK = (1 << 64) - 1


def splitmix64(x):
    x = (x + 0x9E3779B97F4A7C15) & MASK
    z = x
    z = ((z ^ (z >> 30)) * 0xBF58476D1CE4E5B9) & MASK
    z = ((z ^ (z >> 27)) * 0x94D049BB133111EB) & MASK
    return z ^ (z >> 31)


def run_seed(verif_seed, prop, index):
    """Per-run seed: a pure function of (VERIF_SEED, property id, run index)."""
    h = hashlib.sha256(('%d|%s|%d' % (verif_seed, prop, index)).encode()).digest()
    return splitmix64(int.from_bytes(h[:8], 'big'))


# ---------------------------------------------------------------------------
# canonical value encoding: a deep, hashable, type-preserving snapshot
# ---------------------------------------------------------------------------

class BudgetExceeded(BaseException):
    """Deterministic work budget of one run exhausted (size explosion of the
    generated workload).  BaseException so that the `except Exception` clauses
    of the system under test do not swallow it."""


WORK = [0]
WORK_CAP = 600000


def canon(x):
    t = type(x)
    WORK[0] += 1
    if WORK[0] > WORK_CAP:
        raise BudgetExceeded()
    if t is int:
        return x
    if x is None:
        return None
    if t is bool:
        return ('b', x)
    if t is float:
        return ('f', x.hex())
    if t is str:
        return ('s', x)
    if t is tuple:
        return ('t',) + tuple([canon(e) for e in x])
    if t is list:
        return ('l',) + tuple([canon(e) for e in x])
    if t is bytes:
        return ('by', x.hex())
    if t is array:
        return ('a', x.typecode) + tuple([canon(e) for e in x])
    if t is deque:
        return ('dq',) + tuple([canon(e) for e in x])
    if t is dict:
        return ('d',) + tuple([(canon(k), canon(v)) for k, v in x.items()])
    if t in (set, frozenset):
        return ('set',) + tuple(sorted([canon(e) for e in x], key=repr))
    if isinstance(x, tuple):  # namedtuple
        return ('nt', t.__name__) + tuple([canon(e) for e in x])
    if isinstance(x, BaseException):
        return ('exc', t.__name__, tuple([canon(a) for a in x.args]))
    if hasattr(x, '__canon__'):
        return ('o', t.__name__, canon(x.__canon__()))
    if t.__module__ == 'numpy':
        if hasattr(x, 'dtype') and hasattr(x, 'tolist'):       # scalars and arrays: type name, dtype and content
            return ('np', t.__name__, str(x.dtype), canon(x.tolist()))
    if t.__name__ == 'Distogram':
        return ('dist', canon(list(x.bins)), canon(x.min), canon(x.max))
    return ('obj', t.__name__)


def jsonable(c):
    """canon() form -> something json.dumps accepts (tuples become lists)."""
    if isinstance(c, tuple):
        return [jsonable(e) for e in c]
    return c


def digest_of(obj):
    return hashlib.sha256(json.dumps(jsonable(obj), sort_keys=True, separators=(',', ':')).encode()).hexdigest()


# ---------------------------------------------------------------------------
# discrete event simulator
# ---------------------------------------------------------------------------

class Sim(object):
    """Virtual clock + heap of (time, tie, n, action).  `tie` comes from the
    PRNG at scheduling time, so equal-time events are ordered by the seed."""

    def __init__(self, rng=None):
        self.rng = rng
        self.now = 0
        self.heap = []
        self.n = 0
        self.steps = 0

    def at(self, t, action, tie=None):
        self.n += 1
        if tie is None:
            tie = self.rng.random() if self.rng is not None else 0.0
        heapq.heappush(self.heap, (t, tie, self.n, action))

    def after(self, d, action, tie=None):
        self.at(self.now + d, action, tie)

    def run(self, max_steps=1000000):
        while self.heap and self.steps < max_steps:
            t, _, _, action = heapq.heappop(self.heap)
            if t > self.now:
                self.now = t
            self.steps += 1
            action()
        return self.steps


class SimScheduler(PeriodicScheduler):
    """RxPY scheduler interface on top of Sim (virtual seconds = ticks)."""

    def __init__(self, sim):
        super().__init__()
        self.sim = sim

    @property
    def now(self):
        return self.to_datetime(float(self.sim.now))

    def schedule(self, action, state=None):
        return self.schedule_absolute_ticks(self.sim.now, action, state)

    def schedule_relative(self, duetime, action, state=None):
        return self.schedule_absolute_ticks(self.sim.now + max(0.0, self.to_seconds(duetime)), action, state)

    def schedule_absolute(self, duetime, action, state=None):
        return self.schedule_absolute_ticks(self.to_seconds(duetime), action, state)

    def schedule_absolute_ticks(self, t, action, state):
        sad = SingleAssignmentDisposable()
        cancelled = [False]

        def run():
            if not cancelled[0]:
                sad.disposable = self.invoke_action(action, state)

        def cancel():
            cancelled[0] = True
        # FIFO among equal-time actions scheduled by the system under test
        self.sim.at(t, run, tie=2.0)
        return CompositeDisposable(sad, Disposable(cancel))


def resolve_schedule(rng, scripts):
    """scripts: {party: [(delay, value), ...]} -> resolved event list
    [{"t":..,"p":party,"n":ordinal,"v":value}] in the order the seeded
    scheduler runs the parties."""
    sim = Sim(rng)
    events = []

    def make(party, script, idx):
        def step():
            _, v = script[idx]
            events.append({'t': sim.now, 'p': party, 'n': idx, 'v': v})
            if idx + 1 < len(script):
                sim.after(script[idx + 1][0], make(party, script, idx + 1))
        return step
    for party in sorted(scripts):
        script = scripts[party]
        if script:
            sim.at(script[0][0], make(party, script, 0))
    sim.run()
    return events


# ---------------------------------------------------------------------------
# recording context
# ---------------------------------------------------------------------------

class InjectedFault(Exception):
    pass


class EmptyFault(InjectedFault):
    """An exception whose truth value is False (an aggregate error raised with no entries): legal, and a trap for
    code that tests `if error:` instead of `if error is not None:`."""

    def __len__(self):
        return 0


# the same fault as instances of various builtin exception families: code that treats one family specially
# (an `except OverflowError` in front of the generic handler, StopIteration inside a generator, ...) shows up
class OverflowFault(InjectedFault, OverflowError):
    pass


class StopFault(InjectedFault, StopIteration):
    pass


class KeyFault(InjectedFault, KeyError):
    pass


class LookupFault(InjectedFault, LookupError):
    pass


class AssertFault(InjectedFault, AssertionError):
    pass


class TypeFault(InjectedFault, TypeError):
    pass


class MemoryFault(InjectedFault, MemoryError):
    pass


FAULT_CLASSES = [InjectedFault, EmptyFault, OverflowFault, StopFault, KeyFault, LookupFault, AssertFault, TypeFault, MemoryFault]


def fault_class(mode, k, n):
    """mode: falsy -> InjectedFault; 'falsy' -> every second one EmptyFault; 'types' -> rotate through the families."""
    if mode == 'types':
        return FAULT_CLASSES[(k * 3 + n) % len(FAULT_CLASSES)]
    if mode and (k + n) % 2 == 0:
        return EmptyFault
    return InjectedFault


class Ctx(object):
    """State of one simulated run."""
    __slots__ = ('seq', 'g', 'now', 'taps', 'bounds', 'monitor', 'breaches',
                 'fail', 'fired', 'labels', 'out', 'ticks', 'stdout', 'notaps', 'extra', 'aborted')

    def __init__(self, monitor=True, fail=None):
        self.seq = 0            # number of the source event being processed
        self.g = 0              # global record counter
        self.now = 0            # virtual time
        self.taps = {}
        self.bounds = []
        self.monitor = monitor
        self.breaches = []
        self.fail = fail or {}  # site -> set of (party, n)
        self.fired = {}
        self.labels = {}
        self.out = None
        self.ticks = 0
        self.stdout = None
        self.notaps = False
        self.extra = {}
        self.aborted = False

    def rec(self, tid, kind, key, item):
        self.g += 1
        lst = self.taps.get(tid)
        if lst is None:
            lst = self.taps[tid] = []
        lst.append((self.g, self.seq, kind, key, canon(item)))

    def clock(self):
        # virtual replacement of timeit.default_timer for rs.ops.progress
        # strictly increasing and independent of the magnitude of the virtual time (float resolution)
        self.ticks += 1
        return self.ticks * 1e-3

    def trace_digest(self):
        h = hashlib.sha256()
        for tid in sorted(self.taps):
            h.update(tid.encode())
            for r in self.taps[tid]:
                h.update(repr(r).encode())
        for b in self.bounds:
            h.update(('%s:%d' % (b.label, b.count)).encode())
        return h.hexdigest()


CUR = None  # the Ctx of the run in progress (one run at a time per process)


def set_ctx(ctx):
    global CUR
    CUR = ctx


# ---------------------------------------------------------------------------
# boundary monitor: wraps the observer handed to every MuxObservable
# ---------------------------------------------------------------------------

class Boundary(object):
    __slots__ = ('label', 'ctx', 'live', 'idx', 'done', 'count', 'dead', 'ncreate', 'maxlive')

    def __init__(self, label, ctx):
        self.label = label
        self.ctx = ctx
        self.live = {}
        self.idx = {}
        self.done = False
        self.dead = False
        self.count = 0
        self.ncreate = 0
        self.maxlive = 0

    def breach(self, what, key):
        self.ctx.breaches.append((self.label, what, canon(key), self.ctx.seq))


class ProxyObserver(object):
    __slots__ = ('o', 'b')

    def __init__(self, observer, boundary):
        self.o = observer
        self.b = boundary

    def on_next(self, i):
        b = self.b
        t = type(i)
        if not b.dead and t is not ProbeStateTopology:
            b.count += 1
            WORK[0] += 1
            if WORK[0] > WORK_CAP:
                raise BudgetExceeded()
            if b.done:
                b.breach('event-after-completed', getattr(i, 'key', None))
            elif t is rs.OnNextMux or t is rs.OnErrorMux:
                if i.key not in b.live:
                    b.breach('item-for-dead-key' if t is rs.OnNextMux else 'error-for-dead-key', i.key)
            elif t is rs.OnCreateMux:
                k = i.key
                if k in b.live:
                    b.breach('create-live-key', k)
                elif k[0] in b.idx:
                    b.breach('slot-shared', k)
                b.live[k] = True
                b.idx[k[0]] = k
                b.ncreate += 1
                if len(b.live) > b.maxlive:
                    b.maxlive = len(b.live)
            elif t is rs.OnCompletedMux:
                k = i.key
                if k not in b.live:
                    b.breach('complete-dead-key', k)
                else:
                    del b.live[k]
                    if b.idx.get(k[0]) == k:
                        del b.idx[k[0]]
        self.o.on_next(i)

    def on_error(self, e):
        self.b.dead = True
        self.o.on_error(e)

    def on_completed(self):
        b = self.b
        if not b.dead and not b.done:
            b.done = True
            for k in b.live:
                b.breach('open-key-at-completion', k)
        self.o.on_completed()


_installed = False


def install_monitor():
    """Patch rxsci.mux.muxobservable.MuxObservable.__init__ (in this process
    only; /repo is not edited) so that every subscription to every
    MuxObservable hands a ProxyObserver to the operator."""
    global _installed
    if _installed:
        return
    _installed = True
    cls = _muxobs.MuxObservable
    orig = cls.__init__

    def __init__(self, subscribe):
        label = getattr(subscribe, '__qualname__', None) or type(subscribe).__name__
        if hasattr(subscribe, 'func'):  # functools.partial
            label = getattr(subscribe.func, '__qualname__', label)

        def wrapped(observer, scheduler=None):
            ctx = CUR
            if ctx is None or not ctx.monitor:
                return subscribe(observer, scheduler)
            b = Boundary(label, ctx)
            ctx.bounds.append(b)
            return subscribe(ProxyObserver(observer, b), scheduler)
        orig(self, wrapped)
    cls.__init__ = __init__


# ---------------------------------------------------------------------------
# taps
# ---------------------------------------------------------------------------

def tap_mux(ctx, tid):
    def _tap(source):
        def _tap_subscribe(observer, scheduler):
            rec = ctx.rec

            def on_next(i):
                t = type(i)
                if t is rs.OnNextMux:
                    rec(tid, 'N', i.key, i.item)
                elif t is rs.OnCreateMux:
                    rec(tid, 'C', i.key, None)
                elif t is rs.OnCompletedMux:
                    rec(tid, 'D', i.key, None)
                elif t is rs.OnErrorMux:
                    rec(tid, 'E', i.key, i.error)
                observer.on_next(i)

            def on_error(e):
                rec(tid, 'e', None, e)
                observer.on_error(e)

            def on_completed():
                rec(tid, 'c', None, None)
                observer.on_completed()
            return source.subscribe(on_next=on_next, on_error=on_error,
                                    on_completed=on_completed, scheduler=scheduler)
        return rs.MuxObservable(_tap_subscribe)
    return _tap


def tap_plain(ctx, tid):
    def _tap(source):
        def _tap_subscribe(observer, scheduler):
            rec = ctx.rec

            def on_next(i):
                rec(tid, 'N', None, i)
                observer.on_next(i)

            def on_error(e):
                rec(tid, 'e', None, e)
                observer.on_error(e)

            def on_completed():
                rec(tid, 'c', None, None)
                observer.on_completed()
            return source.subscribe(on_next=on_next, on_error=on_error,
                                    on_completed=on_completed, scheduler=scheduler)
        return rx.create(_tap_subscribe)
    return _tap


def sched_tag(ctx, mode):
    """An operator of the *user* (harness side) that depends on the subscribe-time scheduler, as rx's time operators do: every
    item becomes (item, 'given' | 'other' | 'none') according to the scheduler this operator was subscribed with."""
    def _op(source):
        def _subscribe(observer, scheduler=None):
            want = ctx.extra.get('the_scheduler')
            tag = 'none' if scheduler is None else ('given' if scheduler is want else 'other')

            def on_next(i):
                if mode == 'mux':
                    if type(i).__name__ == 'OnNextMux':
                        i = i._replace(item=(i.item, tag))
                    observer.on_next(i)
                else:
                    observer.on_next((i, tag))
            return source.subscribe(on_next=on_next, on_error=observer.on_error, on_completed=observer.on_completed, scheduler=scheduler)
        if mode == 'mux':
            import rxsci as rs
            return rs.MuxObservable(_subscribe)
        return rx.create(_subscribe)
    return _op


def tap(ctx, tid, mode):
    return tap_mux(ctx, tid) if mode == 'mux' else tap_plain(ctx, tid)


# ---------------------------------------------------------------------------
# drivers
# ---------------------------------------------------------------------------

class Final(object):
    """Final subscriber (stub).  Records what reaches the end of the pipeline."""

    def __init__(self, ctx, tid='OUT'):
        self.ctx = ctx
        self.tid = tid
        self.terminal = None

    def on_next(self, i):
        self.ctx.rec(self.tid, 'N', None, i)

    def on_error(self, e):
        self.ctx.rec(self.tid, 'e', None, e)
        self.terminal = ('error', canon(e))

    def on_completed(self):
        self.ctx.rec(self.tid, 'c', None, None)
        self.terminal = ('completed',)


class SourceError(Exception):
    pass


def drive_hot(ctx, build, items, end='complete', mk_item=None, driver='hot'):
    """Push `items` (already in schedule order) through a Subject feeding the
    pipeline returned by build(subject).  One item = one source event.
    end: 'complete' | 'error' | 'dispose' | 'none'.
    Returns (final, escaped_exception_or_None)."""
    _progress = sys.modules.get('rxsci.operators.progress')
    if _progress is None or not hasattr(_progress, 'timer'):
        class _progress(object):      # the module moved: nothing to patch (prints are captured anyway)
            timer = None
    subject = Subject()
    final = Final(ctx)
    prev = CUR
    set_ctx(ctx)
    old_timer = _progress.timer
    _progress.timer = ctx.clock
    buf = io.StringIO()
    escaped = None
    WORK[0] = 0
    sample = None
    manager = ctx.extra.get('store')
    if manager is not None:
        seen = ctx.extra.setdefault('states', set())

        def sample():
            try:
                st = manager.states
                if st:
                    seen.add(hash(tuple([bytes(x.state) for x in st[0].states])))
            except Exception:
                pass
    try:
        with contextlib.redirect_stdout(buf):
            try:
                ctx.seq = 0
                if driver == 'cold':
                    # a cold source that pushes every item, and its termination, synchronously *while it is being
                    # subscribed* (rx.from_ on an ImmediateScheduler, a generator-backed rx.create, ...)
                    def cold_subscribe(observer, scheduler=None):
                        for it in items:
                            ctx.seq += 1
                            t = it.get('t', ctx.now) if isinstance(it, dict) else ctx.now
                            if t > ctx.now:
                                ctx.now = t
                            observer.on_next(mk_item(it) if mk_item else it)
                            if sample is not None:
                                sample()
                            if final.terminal is not None:
                                return
                        ctx.seq += 1
                        if end == 'error':
                            observer.on_error(SourceError('source failed'))
                        elif end != 'none' and end != 'dispose':
                            observer.on_completed()
                    obs = build(rx.create(cold_subscribe))
                    obs.subscribe(on_next=final.on_next, on_error=final.on_error, on_completed=final.on_completed)
                    items = ()
                    end = 'none'
                    ctx.seq -= 1
                    obs = None
                else:
                    obs = build(subject)
                    disp = obs.subscribe(on_next=final.on_next, on_error=final.on_error,
                                         on_completed=final.on_completed, scheduler=ctx.extra.get('the_scheduler'))
                    # subscriptions that the case wants made after the data stream was subscribed (still before the first item)
                    for late in ctx.extra.pop('after_subscribe', ()):
                        late()
                for it in items:
                    ctx.seq += 1
                    t = it.get('t', ctx.now) if isinstance(it, dict) else ctx.now
                    if t > ctx.now:
                        ctx.now = t
                    subject.on_next(mk_item(it) if mk_item else it)
                    if sample is not None:
                        sample()
                    if final.terminal is not None:
                        break
                ctx.seq += 1
                if final.terminal is None:
                    if end == 'complete':
                        subject.on_completed()
                    elif end == 'error':
                        subject.on_error(SourceError('source failed'))
                    elif end == 'dispose':
                        disp.dispose()
            except BudgetExceeded:
                ctx.aborted = True
            except Exception as e:  # escaped the pipeline: a behaviour of the SUT
                escaped = e
    finally:
        _progress.timer = old_timer
        set_ctx(prev)
        ctx.stdout = buf.getvalue()
    return final, escaped


def innermost_in_verif(exc):
    """True when the innermost frame of the traceback is harness code."""
    if isinstance(exc, InjectedFault):
        # an injected user-function failure that the system let escape instead of turning it into a mux error
        return False
    tb = exc.__traceback__
    last = None
    while tb is not None:
        last = tb
        tb = tb.tb_next
    if last is None:
        return True
    fn = last.tb_frame.f_code.co_filename
    if fn.endswith('rxsim/funcs.py'):
        # a *user function* raised: the system under test called it with something the generator's type
        # discipline rules out (stale or foreign state).  That is behaviour of the system, not of the harness.
        return False
    return fn.startswith('/verif/') or '/verif/' in fn
