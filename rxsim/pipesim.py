"""Running a program under the simulator and reading its records."""
import rx
import rxsci as rs

from .core import Ctx, drive_hot, install_monitor, canon, innermost_in_verif
from .program import build
from .workload import mk_rec


class HarnessBug(Exception):
    pass


def run_mux(program, events, end='complete', monitor=True, fail=None, notaps=False, items=None, extra=None, driver='hot'):
    """Subject -> with_memory_store([tap, *program with taps]) -> final."""
    install_monitor()
    ctx = Ctx(monitor=monitor, fail=fail)
    ctx.notaps = notaps
    if extra:
        ctx.extra.update(extra)

    # same code path as rs.state.with_memory_store, but the harness keeps a handle on the StoreManager so that
    # the abstract store state (marker vectors of all states) can be sampled after every source event
    manager = rs.state.StoreManager(store_factory=rs.state.MemoryStore)
    ctx.extra['store'] = manager

    def mk(subject):
        k = ctx.extra.get('two_stores')
        if k:
            # two store scopes chained on one multiplexed stream: multiplex(pipe(with_store(m1, program[:k]), with_store(m2, program[k:])))
            ops = build(program, ctx, 'mux', 'P')
            cutpos = k if ctx.notaps else 2 * k + 1
            manager2 = rs.state.StoreManager(store_factory=rs.state.MemoryStore)
            return subject.pipe(rs.ops.multiplex(rx.pipe(rs.state.with_store(manager, pipeline=ops[:cutpos]),
                                                         rs.state.with_store(manager2, pipeline=ops[cutpos:]))))
        return subject.pipe(rs.state.with_store(manager, pipeline=build(program, ctx, 'mux', 'P')))
    if items is None:
        final, escaped = drive_hot(ctx, mk, events, end, mk_item=mk_rec, driver=driver)
    else:
        final, escaped = drive_hot(ctx, mk, items, end)
    if escaped is not None and innermost_in_verif(escaped):
        raise escaped
    return ctx, final, escaped


def raw_mux_events(events, early=()):
    """A well-formed keyed stream built by hand (what rs.cast_as_mux_observable() is for): every party is one key lifetime
    (create right before its first item, completion right after its last item for the parties in `early`, otherwise when the
    stream ends).  A key is (slot, (party,)): the slot is the lowest index not in use, so that over time one slot index is
    reused for DIFFERENT key tuples - which the library's own group_by never does, and a well-formed stream may."""
    last = {}
    for n, e in enumerate(events):
        last[e['p']] = n
    live = {}          # party -> key
    used = set()
    out = []
    early = set(early)
    for n, e in enumerate(events):
        p = e['p']
        if p not in live:
            slot = 0
            while slot in used:
                slot += 1
            used.add(slot)
            live[p] = (slot, (p,))
            out.append(('create', live[p], None, n))
        out.append(('next', live[p], e, n))
        if last[p] == n and p in early:
            out.append(('complete', live[p], None, n))
            used.discard(live[p][0])
            del live[p]
    for p in sorted(live, key=lambda q: live[q][0]):
        out.append(('complete', live[p], None, len(events)))
    return out


def run_raw(program, events, early=(), fail=None):
    """hand-built mux events -> cast_as_mux_observable -> with_store(pipeline): the pipeline sits directly on a keyed stream whose
    keys it did not allocate itself.  The protocol monitor watches every boundary; the final subscriber receives mux events."""
    install_monitor()
    ctx = Ctx(monitor=True, fail=fail)
    ctx.notaps = True
    manager = rs.state.StoreManager(store_factory=rs.state.MemoryStore)
    ctx.extra['store'] = manager
    raw = raw_mux_events(events, early)

    def mk(subject):
        return subject.pipe(rs.cast_as_mux_observable(), rs.state.with_store(manager, pipeline=build(program, ctx, 'mux', 'P')))

    def mk_item(r):
        kind, key, e, n = r
        if kind == 'create':
            return rs.OnCreateMux(key, None)
        if kind == 'complete':
            return rs.OnCompletedMux(key, None)
        return rs.OnNextMux(key, mk_rec(e), None)
    final, escaped = drive_hot(ctx, mk, raw, 'complete', mk_item=mk_item)
    if escaped is not None and innermost_in_verif(escaped):
        raise escaped
    return ctx, final, escaped


def run_plain(program, items, end='complete', fail=None, extra=None):
    """Subject -> [tap, *program with taps] on an ordinary observable."""
    ctx = Ctx(monitor=False, fail=fail)
    if extra:
        ctx.extra.update(extra)

    def mk(subject):
        return subject.pipe(*build(program, ctx, 'plain', 'P'))
    final, escaped = drive_hot(ctx, mk, items, end)
    if escaped is not None and innermost_in_verif(escaped):
        raise escaped
    return ctx, final, escaped


class Life(object):
    """One lifetime of one key at one tap."""
    __slots__ = ('key', 'cg', 'cseq', 'items', 'eg', 'eseq', 'errors', 'ordinal')

    def __init__(self, key, cg, cseq):
        self.key = key
        self.cg = cg          # global ordinal of the create record
        self.cseq = cseq      # source event of creation
        self.items = []       # (g, seq, canon value)
        self.errors = []      # (g, seq, canon exc)
        self.eg = None        # completion
        self.eseq = None

    def values(self):
        return [v for _, _, v in self.items]


def lifetimes(records):
    """records of a multiplexed tap -> (list of Life in creation order, problems)."""
    live = {}
    out = []
    problems = []
    for g, seq, kind, key, item in records:
        if kind == 'C':
            if key in live:
                problems.append(('create-live', key))
            lf = Life(key, g, seq)
            live[key] = lf
            out.append(lf)
        elif kind == 'N':
            lf = live.get(key)
            if lf is None:
                problems.append(('item-dead', key))
            else:
                lf.items.append((g, seq, item))
        elif kind == 'E':
            lf = live.get(key)
            if lf is None:
                problems.append(('error-dead', key))
            else:
                lf.errors.append((g, seq, item))
        elif kind == 'D':
            lf = live.pop(key, None)
            if lf is None:
                problems.append(('complete-dead', key))
            else:
                lf.eg = g
                lf.eseq = seq
    return out, problems


def plain_life(records):
    """records of a plain tap -> a single Life (key None)."""
    lf = Life(None, 0, 0)
    err = None
    for g, seq, kind, key, item in records:
        if kind == 'N':
            lf.items.append((g, seq, item))
        elif kind == 'c':
            lf.eg = g
            lf.eseq = seq
        elif kind == 'e':
            err = item
    return lf, err


def terminal_of(records):
    for g, seq, kind, key, item in records:
        if kind == 'c':
            return ('completed',)
        if kind == 'e':
            return ('error', item)
    return None


def store_states(ctx):
    """Hashes of the abstract store states sampled after each source event (coverage measure only;
    tolerant of the attributes disappearing after a refactoring)."""
    return ctx.extra.get('states', ())


def run_multi_source(programs, events, monitor=True):
    """rs.state.with_store(store, sources=[...]): several hot sources share ONE store, each has its own pipeline;
    party p feeds source p % len(programs).  Returns (ctx, [final per source], escaped)."""
    import io
    import contextlib
    from rx.subject import Subject
    from .core import Final, set_ctx, WORK, BudgetExceeded
    from . import core
    install_monitor()
    ctx = Ctx(monitor=monitor)
    ctx.notaps = True
    k = len(programs)
    subjects = [Subject() for _ in range(k)]
    finals = [Final(ctx, 'OUT%d' % i) for i in range(k)]
    escaped = None
    prev = core.CUR
    set_ctx(ctx)
    WORK[0] = 0
    try:
        with contextlib.redirect_stdout(io.StringIO()):
            try:
                store = rs.state.StoreManager(store_factory=rs.state.MemoryStore)
                muxed = rs.state.with_store(store, sources=[sub.pipe(rs.ops.mux_observable()) for sub in subjects])
                for i in range(k):
                    muxed[i].pipe(*build(programs[i], ctx, 'mux', 'S%d' % i), rs.ops.demux_observable()).subscribe(
                        on_next=finals[i].on_next, on_error=finals[i].on_error, on_completed=finals[i].on_completed)
                for e in events:
                    ctx.seq += 1
                    if e['t'] > ctx.now:
                        ctx.now = e['t']
                    subjects[e['p'] % k].on_next(mk_rec(e))
                ctx.seq += 1
                for sub in subjects:
                    sub.on_completed()
            except BudgetExceeded:
                ctx.aborted = True
            except Exception as e:
                escaped = e
    finally:
        set_ctx(prev)
    if escaped is not None and innermost_in_verif(escaped):
        raise escaped
    return ctx, finals, escaped
