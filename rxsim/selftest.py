"""Determinism self-test (MANIFEST.setup_cmd).

For every claimed check: the same run indices are executed in two fresh
interpreters - PYTHONHASHSEED=0 with several workers, and a random
PYTHONHASHSEED with one worker - and the per-run digests (case document +
full trace of the run) must be identical.  Exit 0 only when they are.
"""
import json
import os
import subprocess
import sys

VERIF = os.path.dirname(os.path.dirname(os.path.abspath(__file__)))


def digests(pid, seed, runs, workers, hashseed, tier):
    env = dict(os.environ)
    env['PYTHONHASHSEED'] = hashseed
    env['RXSIM_KEEP_HASHSEED'] = '1'
    env.pop('VERIF_BUDGET_S', None)
    env.pop('VERIF_RUNS', None)
    cmd = [sys.executable, '-m', 'rxsim.cli', pid, '--digests', '--runs', str(runs), '--workers', str(workers),
           '--seed', str(seed), '--budget', '600', '--tier', tier]
    p = subprocess.run(cmd, cwd=VERIF, env=env, capture_output=True, text=True, timeout=900)
    for line in p.stdout.splitlines():
        if line.startswith('DIGESTS '):
            return json.loads(line[8:]), p
    return None, p


def main(tier, seed):
    with open(os.path.join(VERIF, 'MANIFEST.json')) as f:
        manifest = json.load(f)
    ids = [c['property_id'] for c in manifest['checks']]
    only = os.environ.get('SELFTEST_ONLY')
    if only:
        ids = [i for i in ids if i in only.split(',')]
    runs = int(os.environ.get('SELFTEST_RUNS') or (160 if tier == 'quick' else 4000))
    bad = 0
    for pid in ids:
        a, pa = digests(pid, seed, runs, 8, '0', tier)
        b, pb = digests(pid, seed, runs, 1, 'random', tier)
        if a is None or b is None:
            bad += 1
            print('selftest %s: FAILED to obtain digests\n%s\n%s' % (pid, (pa.stdout + pa.stderr)[-2000:], (pb.stdout + pb.stderr)[-2000:]))
            continue
        diff = [k for k in sorted(set(a) | set(b), key=int) if a.get(k) != b.get(k)]
        if diff or len(a) != runs:
            bad += 1
            print('selftest %s: NON-DETERMINISTIC, %d/%d runs differ or are missing (first: %s)' % (pid, len(diff), runs, diff[:5]))
        else:
            print('selftest %s: %d runs, digests identical (8 workers/PYTHONHASHSEED=0 vs 1 worker/PYTHONHASHSEED=random)' % (pid, runs))
    return 1 if bad else 0
