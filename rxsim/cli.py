"""Entry point: ./check <id> --tier quick|thorough | --replay <file> | selftest."""
import argparse
import importlib
import json
import os
import sys


def reexec_with_hashseed():
    if os.environ.get('PYTHONHASHSEED') != '0' and not os.environ.get('RXSIM_KEEP_HASHSEED'):
        env = dict(os.environ)
        env['PYTHONHASHSEED'] = '0'
        os.execve(sys.executable, [sys.executable, '-m', 'rxsim.cli'] + sys.argv[1:], env)


def load_check(pid):
    mod = importlib.import_module('checks.%s' % pid.lower())
    return mod.CHECK


def main(argv=None):
    reexec_with_hashseed()
    ap = argparse.ArgumentParser(prog='check')
    ap.add_argument('id')
    ap.add_argument('--tier', default=os.environ.get('VERIF_TIER') or 'quick', choices=['quick', 'thorough'])
    ap.add_argument('--seed', type=int, default=None)
    ap.add_argument('--budget', type=float, default=None)
    ap.add_argument('--runs', type=int, default=None)
    ap.add_argument('--workers', type=int, default=None)
    ap.add_argument('--start', type=int, default=0)
    ap.add_argument('--replay', default=None)
    ap.add_argument('--digests', action='store_true', help='print per-run digests as JSON (determinism self-test)')
    ap.add_argument('--no-evidence', action='store_true')
    ap.add_argument('--probes', action='store_true')
    ap.add_argument('--show', type=int, default=None, help='print the generated case with this run index and exit')
    args = ap.parse_args(argv)
    seed = args.seed
    if seed is None:
        try:
            seed = int(os.environ.get('VERIF_SEED') or 0)
        except ValueError:
            seed = 0
    if args.id == 'selftest':
        from . import selftest
        return selftest.main(args.tier, seed)
    check = load_check(args.id)
    from . import runner
    if args.replay:
        return runner.replay(check, args.replay)
    if args.show is not None:
        case = runner.make_case(check, seed, args.show, args.tier)
        print(json.dumps(case, indent=1))
        out, err = runner.safe_execute(check, case)
        if err:
            print(err)
            return 2
        print('violations:', [v.to_json() for v in out.violations])
        print('probes:', dict(out.probes), 'nontrivial:', out.nontrivial)
        return 0
    code, agg = runner.run_batch(check, args.tier, seed, budget=args.budget, cap=args.runs, workers=args.workers,
                                 want_digests=args.digests, write_evidence=not (args.no_evidence or args.digests),
                                 quiet=args.digests, start=args.start)
    if args.probes:
        for k, v in sorted(agg['probes'].items()):
            print('  probe %-50s %d' % (k, v))
        for k, v in sorted(agg['faults'].items()):
            print('  fault %-50s %d' % (k, v))
    if args.digests:
        print('DIGESTS ' + json.dumps({str(k): v for k, v in sorted(agg['digests'].items())}))
    return code


if __name__ == '__main__':
    sys.exit(main())
