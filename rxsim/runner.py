"""Batch runner, minimiser, replay files, known findings, evidence."""
import copy
import faulthandler
import hashlib
import json
import multiprocessing
import os
import random
import signal
import subprocess
import sys
import time
import traceback
from collections import Counter
from concurrent.futures import ProcessPoolExecutor

from . import GEN_VERSION
from .core import run_seed, innermost_in_verif, jsonable

VERIF = os.path.dirname(os.path.dirname(os.path.abspath(__file__)))
REPO = os.environ.get('VERIF_REPO', '/repo')


class Violation(object):
    def __init__(self, kind, op, detail=None):
        self.kind = kind
        self.op = op
        self.detail = detail

    def cls(self):
        return (self.kind, self.op)

    def to_json(self):
        return {'kind': self.kind, 'op': self.op, 'detail': jsonable(self.detail)}


class Outcome(object):
    def __init__(self):
        self.violations = []
        self.probes = Counter()
        self.faults = Counter()
        self.nontrivial = False
        self.shape = None          # hashable description for distinct counting
        self.ticks = 0             # simulated time covered
        self.steps = 0             # simulated events executed
        self.digest = ''
        self.states = ()           # abstract states reached (hashes)

    def add(self, kind, op, detail=None):
        self.violations.append(Violation(kind, op, detail))


class HangError(BaseException):
    """Raised by the wall-clock watchdog.  BaseException: the `except Exception` clauses of the system under
    test must not be able to swallow it and turn it into one of *its* outcomes."""


class Check(object):
    """One property.  Subclasses provide gen / execute (and optionally valid,
    signature, normalize)."""
    id = None
    title = ''
    rule = ''
    real = ()
    stubs = ()
    assumptions = ()
    quick_budget = 20.0
    thorough_budget = 300.0
    quick_cap = 200000
    thorough_cap = 5000000
    shrink_skip_keys = ('v', 'seed', 'property', 'gen', 'tier', 'idx')

    def gen(self, rng, tier):
        raise NotImplementedError

    def execute(self, case):
        raise NotImplementedError

    def valid(self, case):
        return True

    def normalize(self, case):
        return case

    def signature(self, case, v):
        return '%s|%s' % (v.kind, v.op)

    def extra_candidates(self, case):
        return ()


def _alarm(signum, frame):
    raise HangError('run exceeded the per-run watchdog')


def safe_execute(check, case, watchdog=240.0, _second=False):
    """Returns (outcome, harness_error_text_or_None).  The work of a run is
    bounded deterministically (core.WORK_CAP); the wall-clock watchdog only
    exists for a genuine endless loop and must trip twice in a row."""
    from . import core
    try:
        core.WORK[0] = 0
        signal.signal(signal.SIGALRM, _alarm)
        signal.setitimer(signal.ITIMER_REAL, watchdog)
        try:
            out = check.execute(case)
        finally:
            signal.setitimer(signal.ITIMER_REAL, 0)
        return out, None
    except HangError:
        if not _second:
            return safe_execute(check, case, watchdog, True)
        out = Outcome()
        out.add('hang', 'run', 'run did not finish within %ss of wall clock, twice' % watchdog)
        return out, None
    except core.BudgetExceeded:
        out = Outcome()
        out.probes['aborted_work_budget'] += 1
        return out, None
    except Exception:
        return None, traceback.format_exc()


def make_case(check, verif_seed, idx, tier):
    seed = run_seed(verif_seed, check.id, idx)
    rng = random.Random(seed)
    case = check.gen(rng, tier)
    if not check.valid(case):
        raise AssertionError('generator produced a case outside the preconditions: %s' % json.dumps(case)[:3000])
    case.setdefault('v', 1)
    case['property'] = check.id
    case['seed'] = seed
    case['idx'] = idx
    case['gen'] = '%s@%d' % (check.id, GEN_VERSION)
    return case


def _worker(args):
    check, verif_seed, tier, start, step, cap, deadline, want_digests = args
    faulthandler.enable()
    faulthandler.dump_traceback_later(max(60.0, deadline - time.time() + 180.0), exit=True)
    res = {
        'runs': 0, 'nontrivial': 0, 'shapes': set(), 'probes': Counter(), 'faults': Counter(),
        'ticks': 0, 'steps': 0, 'violations': [], 'nviol': 0, 'harness': None, 'samples': [],
        'digests': {}, 'states': set(), 'vclasses': Counter(),
    }
    idx = start
    executed = []
    while idx < cap and time.time() < deadline:
        try:
            case = make_case(check, verif_seed, idx, tier)
        except Exception:
            res['harness'] = 'generator failed at idx %d\n%s' % (idx, traceback.format_exc())
            break
        out, err = safe_execute(check, case)
        if err is not None:
            res['harness'] = 'idx %d\n%s\ncase=%s' % (idx, err, json.dumps(case)[:4000])
            break
        res['runs'] += 1
        res['probes'].update(out.probes)
        res['faults'].update(out.faults)
        res['ticks'] += out.ticks
        res['steps'] += out.steps
        if out.states:
            res['states'].update(out.states)
        if out.nontrivial:
            res['nontrivial'] += 1
            if out.shape is not None:
                res['shapes'].add(hashlib.blake2b(repr(out.shape).encode(), digest_size=8).digest())
        if want_digests:
            res['digests'][idx] = hashlib.sha256((json.dumps(case, sort_keys=True) + out.digest).encode()).hexdigest()[:16]
        if len(res['samples']) < 2 and out.nontrivial:
            res['samples'].append(case)
        if out.violations:
            res['nviol'] += 1
            for v in out.violations:
                res['vclasses'][v.cls()] += 1
            seen = set(x[1] for x in res['violations'])
            c0 = out.violations[0].cls()
            if c0 not in seen and len(res['violations']) < 6:
                res['violations'].append((case, c0, out.violations[0].to_json(), list(executed[-4000:])))
        executed.append(idx)
        idx += step
    faulthandler.cancel_dump_traceback_later()
    return res


# ---------------------------------------------------------------------------
# minimisation (on the case document, never on the seed)
# ---------------------------------------------------------------------------

def _paths(obj, path=()):
    yield path, obj
    if isinstance(obj, dict):
        for k in sorted(obj):
            for x in _paths(obj[k], path + (k,)):
                yield x
    elif isinstance(obj, list):
        for i, v in enumerate(obj):
            for x in _paths(v, path + (i,)):
                yield x


def _get(obj, path):
    for p in path:
        obj = obj[p]
    return obj


def _set(obj, path, value):
    obj = copy.deepcopy(obj)
    if not path:
        return value
    cur = obj
    for p in path[:-1]:
        cur = cur[p]
    cur[path[-1]] = value
    return obj


class Shrinker(object):
    def __init__(self, check, case, target, max_exec=2500, max_s=30.0):
        self.check = check
        self.case = case
        self.target = target
        self.max_exec = max_exec
        self.deadline = time.time() + max_s
        self.execs = 0

    def still_fails(self, cand):
        if self.execs >= self.max_exec or time.time() > self.deadline:
            return False
        try:
            cand = self.check.normalize(cand)
            if not self.check.valid(cand):
                return False
        except Exception:
            return False
        self.execs += 1
        out, err = safe_execute(self.check, cand, watchdog=20.0)
        if err is not None or out is None:
            return False
        return any(v.cls() == self.target for v in out.violations)

    def accept(self, cand):
        cand = self.check.normalize(cand)
        if self.still_fails(cand):
            self.case = cand
            return True
        return False

    def pass_lists(self):
        progress = False
        paths = [p for p, v in _paths(self.case) if isinstance(v, list) and len(v) > 0
                 and not (p and p[-1] in self.check.shrink_skip_keys)]
        # longest lists first (events), then structure
        paths.sort(key=lambda p: -len(_get(self.case, p)))
        for p in paths:
            try:
                lst = _get(self.case, p)
            except (KeyError, IndexError, TypeError):
                continue
            if not isinstance(lst, list):
                continue
            n = len(lst)
            chunk = max(1, n // 2)
            while chunk >= 1:
                i = 0
                while i < len(lst):
                    cand_list = lst[:i] + lst[i + chunk:]
                    cand = _set(self.case, p, cand_list)
                    if self.accept(cand):
                        progress = True
                        try:
                            lst = _get(self.case, p)
                        except (KeyError, IndexError, TypeError):
                            lst = []
                            break
                        if not isinstance(lst, list):
                            lst = []
                            break
                    else:
                        i += chunk
                    if self.execs >= self.max_exec or time.time() > self.deadline:
                        return progress
                if chunk == 1:
                    break
                chunk = chunk // 2
        return progress

    def pass_unwrap(self):
        """Replace a window operator / tee_map by (one of) its inner pipelines."""
        progress = True
        any_progress = False
        while progress:
            progress = False
            for p, v in list(_paths(self.case)):
                if isinstance(v, dict) and ('inner' in v or 'branches' in v) and p and isinstance(p[-1], int):
                    parent = _get(self.case, p[:-1])
                    i = p[-1]
                    alts = [v['inner']] if 'inner' in v else list(v['branches'])
                    for alt in alts:
                        cand = _set(self.case, p[:-1], parent[:i] + list(alt) + parent[i + 1:])
                        if self.accept(cand):
                            progress = True
                            any_progress = True
                            break
                    if progress:
                        break
        return any_progress

    def pass_scalars(self):
        progress = False
        for p, v in list(_paths(self.case)):
            if p and p[-1] in self.check.shrink_skip_keys:
                continue
            try:
                cur = _get(self.case, p)
            except (KeyError, IndexError, TypeError):
                continue
            if isinstance(cur, bool):
                if cur and self.accept(_set(self.case, p, False)):
                    progress = True
            elif isinstance(cur, int):
                for c in (0, 1, cur // 2, cur - 1):
                    if c != cur and abs(c) < abs(cur) or (c == 0 and cur != 0):
                        if self.accept(_set(self.case, p, c)):
                            progress = True
                            break
            elif isinstance(cur, str) and len(cur) > 1 and p[-1] not in ('op', 'fn', 'key', 'seed', 'term', 'join', 'tc', 'end', 'site', 'handler', 'dt', 'kind', 'codec', 'encoding', 'compression', 'framing', 'order', 'path', 'style', 'truncs', 'pattern', 'mode', 'type', 'sep', 'esc'):
                for c in (cur[:len(cur) // 2], cur[len(cur) // 2:], cur[:-1], cur[1:]):
                    if self.accept(_set(self.case, p, c)):
                        progress = True
                        break
            if self.execs >= self.max_exec or time.time() > self.deadline:
                break
        return progress

    def pass_extra(self):
        progress = False
        for cand in self.check.extra_candidates(self.case):
            if self.accept(cand):
                progress = True
        return progress

    def run(self):
        for _ in range(6):
            a = self.pass_lists()
            b = self.pass_unwrap()
            c = self.pass_extra()
            d = self.pass_scalars()
            if not (a or b or c or d):
                break
            if self.execs >= self.max_exec or time.time() > self.deadline:
                break
        return self.case


# ---------------------------------------------------------------------------
# replay files / known findings
# ---------------------------------------------------------------------------

def repo_state():
    try:
        head = subprocess.run(['git', '-C', REPO, 'rev-parse', '--short', 'HEAD'],
                              capture_output=True, text=True, timeout=20).stdout.strip()
        dirty = bool(subprocess.run(['git', '-C', REPO, 'status', '--porcelain', '--untracked-files=no'],
                                    capture_output=True, text=True, timeout=20).stdout.strip())
        return {'commit': head, 'dirty': dirty}
    except Exception:
        return {'commit': '?', 'dirty': None}


def load_known():
    path = os.path.join(VERIF, 'known_findings.json')
    try:
        with open(path) as f:
            return json.load(f)
    except FileNotFoundError:
        return {'findings': [], 'fixed': []}


def write_replay(check, original, minimal, vjson, digest, sequence=None):
    d = os.path.join(VERIF, 'replays', check.id)
    os.makedirs(d, exist_ok=True)
    body = {
        'property': check.id,
        'seed': original.get('seed'),
        'idx': original.get('idx'),
        'gen': original.get('gen'),
        'repo': repo_state(),
        'violation': vjson,
        'digest': digest,
        'case': minimal,
        'original_case': original,
    }
    if sequence is not None:
        body['sequence'] = sequence       # cases to execute, in this order, in the same process before `case`
    h = hashlib.sha256(json.dumps(minimal, sort_keys=True).encode()).hexdigest()[:10]
    path = os.path.join(d, '%s-%s.json' % (original.get('seed'), h))
    with open(path, 'w') as f:
        json.dump(body, f, indent=1, sort_keys=True)
    return path


def replay(check, path):
    with open(path) as f:
        body = json.load(f)
    case = body['case']
    for c in body.get('sequence') or ():
        safe_execute(check, c)
    out, err = safe_execute(check, case)
    if err is not None:
        print('HARNESS-ERROR while replaying %s\n%s' % (path, err))
        return 2
    want = (body['violation']['kind'], body['violation']['op'])
    got = [v for v in out.violations if v.cls() == want]
    if got:
        same = (out.digest == body.get('digest'))
        print('replayed %s: violation %s at %s reproduced; trace digest %s' % (
            path, want[0], want[1], 'identical' if same else 'DIFFERS (code changed since the file was written?)'))
        print('detail: %s' % json.dumps(got[0].to_json())[:2000])
        print('VIOLATION property=%s replay=%s' % (check.id, path))
        return 1
    if out.violations:
        v = out.violations[0]
        print('replayed %s: recorded violation %s not reproduced, but another one is present: %s' % (path, want, v.cls()))
        print('VIOLATION property=%s replay=%s' % (check.id, path))
        return 1
    print('replayed %s: no violation on this tree (recorded: %s at %s)' % (path, want[0], want[1]))
    return 0


def _sequence_child(check, cases, cls, conn):
    ok = False
    try:
        for c in cases[:-1]:
            safe_execute(check, c)
        out, err = safe_execute(check, cases[-1])
        ok = out is not None and any(v.cls() == cls for v in out.violations)
    finally:
        conn.send(ok)
        conn.close()


def fails_in_sequence(check, cases, cls, timeout=300):
    """Executes the cases one after the other in ONE fresh child process (state that survives across pipelines
    built in the same process - module-level caches and the like - is the only thing that connects them) and tells
    whether the last one shows the violation class."""
    ctx = multiprocessing.get_context('fork')
    a, b = ctx.Pipe(duplex=False)
    p = ctx.Process(target=_sequence_child, args=(check, cases, cls, b))
    p.start()
    b.close()
    ok = False
    if a.poll(timeout):
        try:
            ok = bool(a.recv())
        except EOFError:
            ok = False
    p.join(5)
    if p.is_alive():
        p.kill()
    return ok


def minimise_history(check, history_cases, final_case, cls, max_s=90.0):
    """ddmin over the cases executed before the failing one."""
    deadline = time.time() + max_s
    hist = list(history_cases)
    chunk = max(1, len(hist) // 2)
    while chunk >= 1 and hist and time.time() < deadline:
        i = 0
        while i < len(hist) and time.time() < deadline:
            cand = hist[:i] + hist[i + chunk:]
            if fails_in_sequence(check, cand + [final_case], cls):
                hist = cand
            else:
                i += chunk
        if chunk == 1:
            break
        chunk //= 2
    return hist


# ---------------------------------------------------------------------------
# batch
# ---------------------------------------------------------------------------

def run_batch(check, tier, verif_seed, budget=None, cap=None, workers=None, want_digests=False,
              quiet=False, write_evidence=True, start=0):
    t0 = time.time()
    if budget is None:
        budget = float(os.environ.get('VERIF_BUDGET_S') or (check.quick_budget if tier == 'quick' else check.thorough_budget))
    if cap is None:
        cap = int(os.environ.get('VERIF_RUNS') or (check.quick_cap if tier == 'quick' else check.thorough_cap))
    workers = workers or int(os.environ.get('VERIF_WORKERS') or min(16, os.cpu_count() or 1))
    deadline = t0 + budget
    args = [(check, verif_seed, tier, start + w, workers, start + cap, deadline, want_digests) for w in range(workers)]
    if workers == 1:
        results = [_worker(args[0])]
    else:
        ctx = multiprocessing.get_context('fork')
        with ProcessPoolExecutor(max_workers=workers, mp_context=ctx) as ex:
            results = list(ex.map(_worker, args))
    agg = {
        'runs': 0, 'nontrivial': 0, 'shapes': set(), 'probes': Counter(), 'faults': Counter(), 'ticks': 0,
        'steps': 0, 'violations': [], 'nviol': 0, 'samples': [], 'digests': {}, 'states': set(), 'vclasses': Counter(),
    }
    harness = None
    for r in results:
        if r['harness'] and harness is None:
            harness = r['harness']
        for k in ('runs', 'nontrivial', 'ticks', 'steps', 'nviol'):
            agg[k] += r[k]
        agg['shapes'] |= r['shapes']
        agg['states'] |= r['states']
        agg['probes'].update(r['probes'])
        agg['faults'].update(r['faults'])
        agg['vclasses'].update(r['vclasses'])
        agg['violations'].extend(r['violations'])
        agg['samples'].extend(r['samples'])
        agg['digests'].update(r['digests'])
    if harness is not None:
        print('HARNESS-ERROR property=%s (this is a defect of the check, not a verdict)\n%s' % (check.id, harness))
        return 2, agg
    search_s = time.time() - t0

    # classify violations: one representative per class, smallest run index first
    reps = {}
    for case, cls, vjson, hist in sorted(agg['violations'], key=lambda x: x[0]['idx']):
        reps.setdefault(cls, (case, vjson, hist))
    known = load_known()
    exit_code = 0
    reported = []
    known_hit = {}
    for cls, (case, vjson, hist) in list(reps.items())[:8]:
        out0, err0 = safe_execute(check, case)
        if out0 is None or not any(v.cls() == cls for v in out0.violations):
            # the case alone, in a fresh process, does not fail: does it fail after the cases its worker ran before it?
            tier_ = tier
            history_cases = [make_case(check, verif_seed, i, tier_) for i in hist]
            if fails_in_sequence(check, history_cases + [case], cls):
                history_cases = minimise_history(check, history_cases, case, cls)
                path = write_replay(check, case, case, vjson, '', sequence=history_cases)
                sig = '%s|%s|needs-earlier-pipelines-in-the-same-process' % (check.id, check.signature(case, Violation(vjson['kind'], vjson['op'], vjson.get('detail'))))
                reported.append((sig, path, dict(vjson, needs_history=len(history_cases)), 0))
                exit_code = 1
                continue
            print('HARNESS-ERROR property=%s: run %s reported %s in its worker but neither the case alone nor the worker\'s history '
                  'reproduces it - the harness is not deterministic here; nothing is claimed' % (check.id, case.get('idx'), cls))
            return 2, agg
        sh = Shrinker(check, case, cls)
        minimal = sh.run()
        out, err = safe_execute(check, minimal)
        vmin = None
        if out is not None:
            for v in out.violations:
                if v.cls() == cls:
                    vmin = v
                    break
        if vmin is None:   # must not happen: minimiser only accepts failing candidates
            minimal, vmin_json, dig = case, vjson, ''
            from .runner import Violation as _V
            vobj = _V(vjson['kind'], vjson['op'], vjson.get('detail'))
        else:
            vmin_json, dig, vobj = vmin.to_json(), out.digest, vmin
        sig = '%s|%s' % (check.id, check.signature(minimal, vobj))
        kf = [k for k in known.get('findings', []) if k.get('signature') == sig]
        if kf:
            known_hit[sig] = kf[0]
            continue
        path = write_replay(check, case, minimal, vmin_json, dig)
        reported.append((sig, path, vmin_json, sh.execs))
        exit_code = 1
    for sig, k in sorted(known_hit.items()):
        print('KNOWN-FINDING: property=%s %s [%s]' % (check.id, k.get('what', ''), sig))
    for sig, path, vj, execs in reported:
        print('violation class %s (minimised in %d executions): %s' % (sig, execs, json.dumps(vj)[:1500]))
        print('VIOLATION property=%s replay=%s' % (check.id, path))

    wall = time.time() - t0
    if write_evidence:
        ev = build_evidence(check, tier, verif_seed, agg, wall, search_s, workers, len(reported), known_hit)
        os.makedirs(os.path.join(VERIF, 'evidence'), exist_ok=True)
        with open(os.path.join(VERIF, 'evidence', '%s.json' % check.id), 'w') as f:
            json.dump(ev, f, indent=1, sort_keys=True)
    if not quiet:
        zero = sorted(k for k, v in agg['probes'].items() if v == 0)
        print('%s %s: %d runs in %.1fs (%.0f runs/h), %d non-trivial, %d distinct non-trivial, %d runs with violations, exit %d' % (
            check.id, tier, agg['runs'], wall, agg['runs'] / max(search_s, 1e-9) * 3600, agg['nontrivial'],
            len(agg['shapes']), agg['nviol'], exit_code))
        want = getattr(check, 'probe_names', ())
        missing = [p for p in want if agg['probes'].get(p, 0) == 0]
        if missing:
            print('WARNING probes never hit in this batch: %s' % ', '.join(missing))
    return exit_code, agg


def build_evidence(check, tier, verif_seed, agg, wall, search_s, workers, nreported, known_hit):
    samples = agg['samples'][:3]
    if not samples:
        samples = [{'note': 'no non-trivial case in this batch'}]
    rph = agg['runs'] / max(search_s, 1e-9) * 3600
    cov = {
        'evaluations': agg['runs'],
        'distinct_nontrivial': len(agg['shapes']),
        'rule': check.rule,
        'samples': samples,
        'nontrivial_runs': agg['nontrivial'],
        'runs_per_hour': round(rph),
        'seeds_per_hour': round(rph),
        'seed_rule': 'run i uses splitmix(sha256(VERIF_SEED|property|i)); i = 0..evaluations-1 (interleaved over %d workers)' % workers,
        'simulated_time_ticks': agg['ticks'],
        'simulated_events': agg['steps'],
        'faults_fired': dict(sorted(agg['faults'].items())),
        'probes': dict(sorted(agg['probes'].items())),
        'probes_declared': list(getattr(check, 'probe_names', ())),
        'distinct_abstract_states': len(agg['states']),
        'violation_classes': {'%s|%s' % k: v for k, v in sorted(agg['vclasses'].items())},
        'known_findings_matched': sorted(known_hit),
        'components_real': list(check.real),
        'components_stubbed': list(check.stubs),
        'workers': workers,
        'repo': repo_state(),
        'exhaustive': False,
    }
    return {
        'property_id': check.id,
        'tier': tier,
        'seed': verif_seed,
        'level': 'exploration',
        'coverage': cov,
        'assumptions': list(check.assumptions),
        'wall_s': round(wall, 3),
        'violations': nreported,
    }
