#!/venv/bin/python
"""Confirms and evaluates one seeded breaking change (written by an independent sub-agent).

usage: tools/seeded.py <dir with patch.diff, demo.py, meta.json> <name> <check id>...
Steps, all in a fresh scratch worktree of /repo's HEAD under /tmp (removed afterwards):
  1. demo.py exits 0 on the unchanged tree;
  2. the patch applies; the pinned suite stays green on the changed tree; demo.py exits 1 on it;
  3. each named check is run against the changed tree (VERIF_REPO) - quick tier, then thorough with a
     bounded budget if quick missed it.
The result is written to /verif/seeded/<name>/ (patch.diff, demo.py, meta.json).
"""
import json
import os
import shutil
import subprocess
import sys
import tempfile

VERIF = os.path.dirname(os.path.dirname(os.path.abspath(__file__)))


def sh(cmd, **kw):
    return subprocess.run(cmd, capture_output=True, text=True, **kw)


def main():
    src, name = sys.argv[1], sys.argv[2]
    checks = sys.argv[3:]
    wt = tempfile.mkdtemp(prefix='rxsci-seeded-', dir='/tmp')
    os.rmdir(wt)
    res = {'ran': []}
    try:
        r = sh(['git', '-C', '/repo', 'worktree', 'add', '--detach', wt, 'HEAD'])
        assert r.returncode == 0, r.stderr
        env = dict(os.environ, PYTHONPATH=wt, PYTHONDONTWRITEBYTECODE='1')
        demo = os.path.join(src, 'demo.py')
        d0 = sh(['/venv/bin/python', demo], env=env, cwd=wt, timeout=600)
        res['demo_unchanged_exit'] = d0.returncode
        a = sh(['git', '-C', wt, 'apply', os.path.abspath(os.path.join(src, 'patch.diff'))])
        res['patch_applies'] = a.returncode == 0
        if a.returncode != 0:
            print('PATCH DOES NOT APPLY', a.stderr)
            print(json.dumps(res))
            return 1
        s = sh(['/venv/bin/python', '-m', 'pytest', '-q', '-p', 'no:cacheprovider', '--timeout=900'], env=env, cwd=wt, timeout=1200)
        res['suite_exit'] = s.returncode
        res['suite_tail'] = s.stdout.strip().splitlines()[-1] if s.stdout.strip() else ''
        d1 = sh(['/venv/bin/python', demo], env=env, cwd=wt, timeout=600)
        res['demo_changed_exit'] = d1.returncode
        res['confirmed'] = (d0.returncode == 0 and d1.returncode == 1 and s.returncode == 0)
        print('unchanged demo exit %d, suite on change: %s (exit %d), changed demo exit %d -> confirmed=%s' % (
            d0.returncode, res['suite_tail'], s.returncode, d1.returncode, res['confirmed']))
        caught = {}
        for cid in checks:
            envc = dict(os.environ, VERIF_REPO=wt)
            for tier, budget in (('quick', None), ('thorough', '90')):
                cmd = [os.path.join(VERIF, 'check'), cid, '--tier', tier, '--no-evidence']
                if budget:
                    cmd += ['--budget', budget]
                c = sh(cmd, env=envc, timeout=3600)
                lines = [l for l in c.stdout.splitlines() if l.startswith(('violation class', 'VIOLATION', 'HARNESS', 'KNOWN'))]
                res['ran'].append({'check': cid, 'tier': tier, 'exit': c.returncode, 'lines': [l[:300] for l in lines[:6]]})
                print('  %s %s on the change: exit %d' % (cid, tier, c.returncode))
                for l in lines[:4]:
                    print('      ' + l[:260])
                if c.returncode not in (0, 1):
                    print(c.stdout[-2000:], c.stderr[-2000:])
                if c.returncode == 1:
                    caught[cid] = tier
                    break
        res['caught_by'] = caught
    finally:
        sh(['git', '-C', '/repo', 'worktree', 'remove', '--force', wt])
        shutil.rmtree(wt, ignore_errors=True)
    dst = os.path.join(VERIF, 'seeded', name)
    os.makedirs(dst, exist_ok=True)
    shutil.copy(os.path.join(src, 'patch.diff'), os.path.join(dst, 'patch.diff'))
    shutil.copy(os.path.join(src, 'demo.py'), os.path.join(dst, 'demo.py'))
    try:
        meta = json.load(open(os.path.join(src, 'meta.json')))
    except Exception:
        meta = {}
    meta['verification'] = res
    meta['what_was_run'] = ('tools/seeded.py: fresh worktree of /repo HEAD; demo.py on unchanged tree; git apply patch.diff; pinned pytest suite; '
                            'demo.py on changed tree; ./check <id> with VERIF_REPO=<changed tree>')
    with open(os.path.join(dst, 'meta.json'), 'w') as f:
        json.dump(meta, f, indent=1)
    print('RESULT', name, 'confirmed=%s' % res.get('confirmed'), 'caught_by=%s' % res.get('caught_by'))
    return 0


if __name__ == '__main__':
    sys.exit(main())
