#!/venv/bin/python
"""Regenerates /verif/MANIFEST.json from the table below (kept in one place so
the claimed list, the not_applicable list and the commands cannot drift)."""
import json
import os
import sys

HERE = os.path.dirname(os.path.dirname(os.path.abspath(__file__)))

# id -> (technique, level text, level note, design ref)
CLAIMED = {}
NOT_BUILT = {}
NA = {
    'C12': 'numerical accuracy of a pure function of one float sequence: no schedule, clock, fault or interleaving in it, so deterministic simulation has nothing to decide (DESIGN.md section 5)',
    'C20': 'pure function of (rows, batch sizes, codec); file I/O is native pyarrow with no chunking/ordering the simulator could own and the text states no failure behaviour (DESIGN.md section 5)',
}


def claim(pid, technique, text, note, ref):
    CLAIMED[pid] = (technique, text, note, ref)


TRUST = ('Trusted: CPython 3.12, RxPY 3.2 core, the harness (rxsim) incl. its class-level patch of MuxObservable.__init__, '
         'the reference models in rxsim/ref.py. Sampling, not enumeration: a clean batch is evidence, not proof.')

exec(open(os.path.join(HERE, 'tools', 'claims.py')).read())

ALL = ['C%02d' % i for i in range(1, 21)]
checks = []
for pid in ALL:
    if pid in CLAIMED:
        tech, text, note, ref = CLAIMED[pid]
        checks.append({
            'property_id': pid,
            'quick_cmd': './check %s --tier quick' % pid,
            'thorough_cmd': './check %s --tier thorough' % pid,
            'evidence_file': '/verif/evidence/%s.json' % pid,
            'replay_cmd_template': './check %s --replay {path}' % pid,
            'engine': 'rxsim',
            'level_claimed': {'category': 'exploration', 'text': text, 'design_ref': ref},
            'level_note': note,
            'technique': tech,
        })
na = []
for pid in ALL:
    if pid in CLAIMED:
        continue
    if pid in NA:
        na.append({'property_id': pid, 'reason': NA[pid]})
    else:
        na.append({'property_id': pid, 'reason': 'check not built yet in this round (planned: deterministic simulation, see DESIGN.md section 4); not claimed until it exists'})

manifest = {
    'version': 1,
    'setup_cmd': './check selftest --tier quick',
    'hooks': {
        'guard': 'RXSCI_VERIF',
        'enable': 'no hook in /repo is needed: the checks import /repo\'s working tree directly (PYTHONPATH=/repo) and observe it by patching rxsci.mux.muxobservable.MuxObservable.__init__ and rxsci.operators.progress.timer inside the check process only',
        'baseline_off_cmd': 'cd /repo && /venv/bin/python -m pytest -ra -q -p no:cacheprovider --timeout=900 --continue-on-collection-errors',
        'source_commits': [],
        'add_only': True,
    },
    'engines': [{
        'name': 'rxsim',
        'path': '/verif/rxsim',
        'serves_properties': sorted(CLAIMED),
        'kind_free_text': 'deterministic discrete-event simulator (seeded scheduler over party scripts, virtual clock, simulated byte transport and files, fault plans) running the real rxsci/RxPY code in-process; own ddmin minimiser and JSON replay files',
    }],
    'checks': checks,
    'not_applicable': na,
    'notes': 'All commands run with /venv/bin/python against /repo\'s current working tree. VERIF_SEED selects the batch; VERIF_BUDGET_S / VERIF_RUNS / VERIF_WORKERS override the budget. Exit 2 = harness error (never a verdict).',
}
with open(os.path.join(HERE, 'MANIFEST.json'), 'w') as f:
    json.dump(manifest, f, indent=1)
print('claimed:', sorted(CLAIMED), 'not applicable/unclaimed:', [x['property_id'] for x in na])
