claim('C03', 'deterministic simulation: seeded schedule search with an in-run protocol state machine at every MuxObservable boundary',
      'Seeded search over random nested programs x key interleavings; the create/item/complete state machine and the live-slot-index uniqueness invariant are evaluated at every subscription of every MuxObservable (also inside tee_map and inside window operators) while the run proceeds. Failures are minimised and replayable.',
      TRUST, 'DESIGN.md 4/C03')
MODEL_NOTE = TRUST + ' Models are a few lines each, written from the property text, and cross-checked by the differential checks (C01, C02, C08) on the same operators.'
claim('C04', 'deterministic simulation: seeded key-interleaving search, partition model checked between taps',
      'Seeded search over group_by programs (equal-not-identical keys, nesting under key-reusing parents) x interleavings of up to 12 parties; the observed records in front of group_by are mapped by a partition model to the expected sub-lifetimes (items, creation event, completion order) at the head of the inner pipeline, and the demultiplexed output must equal the inner pipeline\'s tail records in order.',
      MODEL_NOTE, 'DESIGN.md 4/C04')
claim('C05', 'deterministic simulation: seeded interleaving x (window, stride, length) knob search, timed window model',
      'Seeded search over (window, stride) relations, stream lengths that wrap the slot ring several times, nesting under group_by/roll/split and interleaved keys; window membership, creation event, close event and close order are compared with the count-window model at the inner pipeline\'s head tap; source error/dispose at arbitrary events leave windows open.',
      MODEL_NOTE, 'DESIGN.md 4/C05')
claim('C06', 'deterministic simulation: seeded interleaving search, run-length model',
      'Seeded search over predicates returning equal-but-not-identical values, run shapes and nesting x interleavings; segments (items, creation and close events) are compared with the maximal-run model.',
      MODEL_NOTE, 'DESIGN.md 4/C06')
claim('C07', 'deterministic simulation: virtual-time schedule search biased to the time-out boundaries, session model',
      'Party scripts with delays drawn around the configured time-outs are resolved by the seeded scheduler on a virtual clock that stamps the items; non-empty windows per key and their close events are compared with the session model for every combination of active/inactive/closing/include, integer and datetime timestamps, top level and under group_by with interleaved keys.',
      MODEL_NOTE, 'DESIGN.md 4/C07')
claim('C09', 'deterministic simulation: seeded interleaving/lifetime search, fold model + streaming/reduce relation',
      'Seeded search over accumulators (incl. mutating ones), value/factory seeds, reduce and terminator flags, emptied keys, interleaved keys and reused slots; records deep-copied at the tap behind the operator are compared with a left fold from a fresh seed per lifetime, and the same case is re-run with the reduce flag flipped (last streaming value == reduce value).',
      MODEL_NOTE, 'DESIGN.md 4/C09')
claim('C10', 'deterministic simulation (partial fit): seeded interleaving/slot-reuse search, list models; plain-observable twin',
      'List models for first/last/take/distinct/distinct_until_changed/lag/pad_start/pad_end/start_with/batch per key lifetime under interleaving and slot reuse (None items, n in {0,1,..,>len}, emptied keys), and for first/last/take/distinct_until_changed/batch/sort/to_deque on an ordinary observable. The simulator contributes cross-key interference and slot reuse; the shape of one key\'s input is ordinary input generation.',
      MODEL_NOTE, 'DESIGN.md 4/C10')
claim('C11', 'deterministic simulation: every record stamped with the global source-event number, timed models',
      'Every record at every tap carries the number of the source event being processed; for each operator instance whose values agree with its model the stamps must agree too (per-item/running = the item\'s event, completion-triggered = the key\'s completion event, batch = n-th item, window close = closing item). Nested windows, groups, tees; source error/dispose at arbitrary events.',
      MODEL_NOTE, 'DESIGN.md 4/C11')
DIFF_NOTE = TRUST + ' The differential oracles need no model of operator semantics: they compare the real code with itself in a simpler context.'
claim('C01', 'deterministic simulation: seeded program x interleaving search, differential mux path vs plain RxPY path per group',
      'Random pipelines over the dual-mode operators (preconditions of the text enforced by the type checker) are run by the real code twice: multiplexed under group_by with K interleaved parties, and per group on the plain-observable branch of every isinstance dispatch; outputs per group must be equal element-wise with type.',
      DIFF_NOTE, 'DESIGN.md 4/C01')
claim('C02', 'deterministic simulation: seeded interleaving x lifetime-history x crash-point search, differential against the inner pipeline run stand-alone',
      'Wrappers (group_by/roll/split/time_split, nested) around stateful inner pipelines; for every key lifetime observed at the head of every inner pipeline the real inner pipeline is re-run alone on exactly that lifetime\'s items and must give the records seen in place, including lifetimes cut by a source error or dispose at an arbitrary event.',
      DIFF_NOTE, 'DESIGN.md 4/C02')
claim('C08', 'deterministic simulation: seeded interleaving x lifetime search, differential (each branch alone) + join model',
      'tee_map with 2-4 branches and the three joins under fresh and reused key slots and on plain observables: each branch re-run alone under the same wrapper and schedule must reproduce its in-tee records; branch outputs ordered by causing input record are joined by a small model and compared with the tee\'s output (values and source event).',
      DIFF_NOTE, 'DESIGN.md 4/C08')
claim('C13', 'deterministic simulation with fault injection: fault plans (which user-function calls raise) x seeded interleavings x handler, "as if absent" differential + list model',
      'The user function of map/starmap/filter/scan raises on the (party, ordinal) pairs of a generated fault plan (none, first, last, consecutive, all of a key, random subsets) under K interleaved keys and key-reusing wrappers; at the tap behind the operator exactly one OnErrorMux per failing call in position and everything else as the list model of the non-failing items; ignore/router compared record by record with the same run where the failing items are filtered out in front of the operator; dead-letter order and completion; error.map in place; unhandled error surfaces as on_error with the prefix of the fault-free run.',
      DIFF_NOTE, 'DESIGN.md 4/C13')
