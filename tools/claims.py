claim('C03', 'deterministic simulation: seeded schedule search with an in-run protocol state machine at every MuxObservable boundary',
      'Seeded search over random nested programs x key interleavings; the create/item/complete state machine and the live-slot-index uniqueness invariant are evaluated at every subscription of every MuxObservable (also inside tee_map and inside window operators) while the run proceeds. Failures are minimised and replayable.',
      TRUST, 'DESIGN.md 4/C03')
MODEL_NOTE = TRUST + ' Models are a few lines each, written from the property text, and cross-checked by the differential checks (C01, C02, C08) on the same operators.'
claim('C04', 'deterministic simulation: seeded key-interleaving search, partition model checked between taps',
      'Seeded search over group_by programs (equal-not-identical keys, nesting under key-reusing parents) x interleavings of up to 12 parties; the observed records in front of group_by are mapped by a partition model to the expected sub-lifetimes (items, creation event, completion order) at the head of the inner pipeline, and the demultiplexed output must equal the inner pipeline\'s tail records in order.',
      MODEL_NOTE, 'DESIGN.md 4/C04')
claim('C05', 'deterministic simulation: seeded interleaving x (window, stride, length) knob search, timed window model',
      'Seeded search over (window, stride) relations, stream lengths that wrap the slot ring several times, nesting under group_by/roll/split and interleaved keys; window membership, creation event, close event and close order are compared with the count-window model at the inner pipeline\'s head tap; source error/dispose at arbitrary events leave windows open.',
      MODEL_NOTE, 'DESIGN.md 4/C05')
claim('C06', 'deterministic simulation: seeded interleaving search, run-length model',
      'Seeded search over predicates returning equal-but-not-identical values, run shapes and nesting x interleavings; segments (items, creation and close events) are compared with the maximal-run model.',
      MODEL_NOTE, 'DESIGN.md 4/C06')
claim('C07', 'deterministic simulation: virtual-time schedule search biased to the time-out boundaries, session model',
      'Party scripts with delays drawn around the configured time-outs are resolved by the seeded scheduler on a virtual clock that stamps the items; non-empty windows per key and their close events are compared with the session model for every combination of active/inactive/closing/include, integer and datetime timestamps, top level and under group_by with interleaved keys.',
      MODEL_NOTE, 'DESIGN.md 4/C07')
claim('C09', 'deterministic simulation: seeded interleaving/lifetime search, fold model + streaming/reduce relation',
      'Seeded search over accumulators (incl. mutating ones), value/factory seeds, reduce and terminator flags, emptied keys, interleaved keys and reused slots; records deep-copied at the tap behind the operator are compared with a left fold from a fresh seed per lifetime, and the same case is re-run with the reduce flag flipped (last streaming value == reduce value).',
      MODEL_NOTE, 'DESIGN.md 4/C09')
claim('C10', 'deterministic simulation (partial fit): seeded interleaving/slot-reuse search, list models; plain-observable twin',
      'List models for first/last/take/distinct/distinct_until_changed/lag/pad_start/pad_end/start_with/batch per key lifetime under interleaving and slot reuse (None items, n in {0,1,..,>len}, emptied keys), and for first/last/take/distinct_until_changed/batch/sort/to_deque on an ordinary observable. The simulator contributes cross-key interference and slot reuse; the shape of one key\'s input is ordinary input generation.',
      MODEL_NOTE, 'DESIGN.md 4/C10')
claim('C11', 'deterministic simulation: every record stamped with the global source-event number, timed models',
      'Every record at every tap carries the number of the source event being processed; for each operator instance whose values agree with its model the stamps must agree too (per-item/running = the item\'s event, completion-triggered = the key\'s completion event, batch = n-th item, window close = closing item). Nested windows, groups, tees; source error/dispose at arbitrary events.',
      MODEL_NOTE, 'DESIGN.md 4/C11')
DIFF_NOTE = TRUST + ' The differential oracles need no model of operator semantics: they compare the real code with itself in a simpler context.'
claim('C01', 'deterministic simulation: seeded program x interleaving search, differential mux path vs plain RxPY path per group',
      'Random pipelines over the dual-mode operators (preconditions of the text enforced by the type checker) are run by the real code twice: multiplexed under group_by with K interleaved parties, and per group on the plain-observable branch of every isinstance dispatch; outputs per group must be equal element-wise with type.',
      DIFF_NOTE, 'DESIGN.md 4/C01')
claim('C02', 'deterministic simulation: seeded interleaving x lifetime-history x crash-point search, differential against the inner pipeline run stand-alone',
      'Wrappers (group_by/roll/split/time_split, nested) around stateful inner pipelines; for every key lifetime observed at the head of every inner pipeline the real inner pipeline is re-run alone on exactly that lifetime\'s items and must give the records seen in place, including lifetimes cut by a source error or dispose at an arbitrary event.',
      DIFF_NOTE, 'DESIGN.md 4/C02')
claim('C08', 'deterministic simulation: seeded interleaving x lifetime search, differential (each branch alone) + join model',
      'tee_map with 2-4 branches and the three joins under fresh and reused key slots and on plain observables: each branch re-run alone under the same wrapper and schedule must reproduce its in-tee records; branch outputs ordered by causing input record are joined by a small model and compared with the tee\'s output (values and source event).',
      DIFF_NOTE, 'DESIGN.md 4/C08')
claim('C13', 'deterministic simulation with fault injection: fault plans (which user-function calls raise) x seeded interleavings x handler, "as if absent" differential + list model',
      'The user function of map/starmap/filter/scan raises on the (party, ordinal) pairs of a generated fault plan (none, first, last, consecutive, all of a key, random subsets) under K interleaved keys and key-reusing wrappers; at the tap behind the operator exactly one OnErrorMux per failing call in position and everything else as the list model of the non-failing items; ignore/router compared record by record with the same run where the failing items are filtered out in front of the operator; dead-letter order and completion; error.map in place; unhandled error surfaces as on_error with the prefix of the fault-free run.',
      DIFF_NOTE, 'DESIGN.md 4/C13')
claim('C14', 'deterministic simulation: seeded interleaving of store-client scripts, dictionary model op by op + cross-index read-back invariant after every operation',
      'Several simulated clients owning states of every data type (with/without default) issue add_key/set/get/del_key/iterate and add_map/get_map/iterate_map on sparse, descending and repeated indices against one StoreManager in scheduler-chosen order; dict model per state checked on every operation and all live slots of all states read back after every operation; map indices never collide with an index in use.',
      TRUST, 'DESIGN.md 4/C14')
BYTE_NOTE = TRUST + ' Reference decoders (gzip module, zstandard stream reader, str.decode, orjson) are trusted.'
claim('C15', 'deterministic simulation with fault injection: seeded chunking schedules + sweep of every single cut and every truncation offset of each sampled stream',
      'Real frame() output is concatenated, cut by seeded schedules (inside prefixes, at newlines, empty and 1-unit segments) and - for streams up to 300 units - at every single position, truncated at every offset, and fed through the real unframe(); items must round-trip, a trailing unterminated line is delivered at completion, an incomplete length-prefixed frame never is.',
      BYTE_NOTE, 'DESIGN.md 4/C15')
claim('C16', 'deterministic simulation with fault injection: seeded re-chunking schedules of the compressed bytes + truncation at every offset (streams <= 2 KiB)',
      'Real compress() output (gzip, zstd; empty chunks, empty list, up to several internal buffers) is re-cut by seeded schedules incl. empty segments anywhere and swept single cuts, decompressed by the real decompress() and compared; reference decoders must accept the compressed bytes; every truncation must end in on_error, never on_completed.',
      BYTE_NOTE, 'DESIGN.md 4/C16')
claim('C17', 'deterministic simulation: seeded byte-level cut schedules biased to the inside of multi-byte sequences + sweep of every single cut',
      'Strings over the full scalar range are encoded by the real encode() for utf-8/16/32/latin-1 (+sig, le, be), the bytes re-cut inside multi-byte sequences and surrogate pairs, decoded by the real decode(); joined text must be equal and the reference codec must agree (BOM once).',
      BYTE_NOTE, 'DESIGN.md 4/C17')
claim('C18', 'deterministic simulation (partial fit): simulated disk with short-read schedules through open_obj, seeded re-cutting of the character stream',
      'Typed rows (negative/-0.0/exponent floats, strings with separators, quotes, escape chars, blank edges) x separators x escape chars are written by the real dump()/dump_to_file() and read back by the real load()/load_from_file() from a simulated disk whose read() returns short reads from a seeded schedule (and full-size reads on > 64 KiB images); rows must be equal field by field. Field content is ordinary generation; the simulated dimension is where the stream/file is cut.',
      BYTE_NOTE, 'DESIGN.md 4/C18')
claim('C19', 'deterministic simulation: simulated disk with short-read schedules under the four-stage streaming pipeline (file -> decompress -> decode -> unframe -> parse)',
      'Dicts with nested values, 64-bit ints, floats, Unicode strings incl. newlines are written by the real json.dump_to_file(None/gzip/zstd) onto a simulated disk and read back by load_from_file through open_obj with seeded short reads (inside multi-byte characters, inside the compressed stream) and on multi-chunk files; items must be equal and in order.',
      BYTE_NOTE, 'DESIGN.md 4/C19')
