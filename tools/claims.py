claim('C03', 'deterministic simulation: seeded schedule search with an in-run protocol state machine at every MuxObservable boundary',
      'Seeded search over random nested programs x key interleavings; the create/item/complete state machine and the live-slot-index uniqueness invariant are evaluated at every subscription of every MuxObservable (also inside tee_map and inside window operators) while the run proceeds. Failures are minimised and replayable.',
      TRUST, 'DESIGN.md 4/C03')
