#!/venv/bin/python
"""Writes /verif/seeded/RESULTS.md from seeded/*/meta.json."""
import glob
import json
import os

HERE = os.path.dirname(os.path.dirname(os.path.abspath(__file__)))
NOTES = {
    'C17-a': 'missed at first (U+FEFF was excluded from the generated strings); C17 now generates it anywhere, incl. the very start',
    'C14-a': 'missed at first (iterate_state was a perturbation only); C14 now requires it to enumerate exactly the live indices',
    'C07-c': 'missed at first (datetime ticks were seconds); C07 now also uses hour and day units (gaps of days)',
    'C19-c': 'missed at first; C16/C19 now include highly compressible multi-MiB inputs (one compressed chunk inflating to > 1 MiB)',
    'C16-c': 'caught only by the thorough tier at first; the multi-MiB inputs are now in the quick tier too',
    'C05-c': 'missed at first (windows <= 16); scale cases (window 256/257/300 on streams of 350-800 items) added to every batch',
    'C10-c': 'needs take(n >= 257) and more than n items of one key: reached by the scale cases',
    'C04-c': 'needs > 256 groups under one parent: reached by the many-keys scale cases (260-300 parties)',
    'C01-c': 'missed at first (small values); value style "huge" (>= 2**31) added',
    'C09-c': 'missed at first (plain path of scan not modelled, no accumulator returning None); C09 now has a plain-observable twin and the `nreset` accumulator with factory seeds',
    'C16-d': 'missed at first (one stream at a time); C15/C16/C17 now also run two or three streams of the same operator alive at the same time, their chunks interleaved by the seeded schedule (module-level shared state = cross-talk)',
    'C06-d': 'missed at first; predicate/key functions returning numpy scalars (whose != answers numpy.bool_) added',
    'C15-d': 'missed at first (items <= 300 bytes); item sizes at the signed/unsigned limits of each prefix size added (32767/32768/65535 for 2 bytes)',
    'C02-d': 'caught only by the thorough tier at first; terminators that mutate their argument in place added (and typed as aliasing when streaming)',
    'C19-d': 'needs the optional encoding argument together with compression: encoding is now a generated dimension (utf-8/utf-16/utf-32/latin-1)',
    'C17-d': 'needs latin-1 text starting with the three characters that look like a UTF-8 signature: signature look-alike prefixes are now generated',
    'C18-d': 'needs U+FEFF inside a string at the start of a read chunk: U+FEFF / U+200B are now in the string alphabet (short reads put them at chunk starts)',
    'C13-d': 'needs an exception instance whose truth value is False: the fault plan now raises such instances for part of the failing calls',
    'C03-d': 'needs a source that emits while it is being subscribed: a cold synchronous driver is now used for part of the cases',
    'C11-d': 'needs a closing item whose timestamp is older than its predecessor (clock skew): C11 now injects backward timestamp jumps for time_split cases (C07 itself stays within its non-decreasing precondition)',
    'C17-e': 'needs an alias spelling of the encoding name (utf16, u16, utf32, u32): alias spellings are now generated',
    'C15-e': 'needs the same operator twice in one synchronous chain (a length-prefixed stream tunnelled in another): nested same-operator scenarios added to C15 and C16',
    'C07-e': 'needs numpy scalar timestamps: np.int64 / np.float64 / np.datetime64 time mappers added',
    'C06-e': 'needs one shared nan object as predicate value for consecutive items: nan predicate values added for split (ported onto the repaired split.py). Generating them exposed a genuine defect (nan as first predicate value gave an empty first segment), repaired in d34c07e',
    'C11-e': 'same change as C06-e (three sub-agents converged on it). C11 by design skips an operator instance whose window *contents* disagree with the model; the change is a segmentation bug and is caught by C06',
    'C02-e': 'same change as C06-e. Not a state leak: every observed (merged) lifetime is still a function of its own items, so C02 is rightly silent; caught by C06',
    'C10-e': 'numpy scalars as key_mapper results (already generated after wave 4)',
    'C13-e': 'needs OverflowError raised by the accumulator: the fault plan now rotates through builtin exception families (Overflow, StopIteration, Key, Lookup, Assertion, Type, Memory)',
    'C01-e': 'needs a hashable but mutable seed object: user-class accumulator objects (alone and inside a tuple) added as value and factory seeds',
    'C04-e': 'needs nan keys: fresh nan objects (each its own group under ==) and None keys are now generated for group_by; the one shared nan object stays excluded for group_by because dict lookup finds it by identity, which == does not describe',
    'C05-e': 'needs a single key with more than 131072 items and a length just past a multiple of 2**16: caught by the thorough tier only (ultra-long single-key scenario, 0.2 % of thorough cases)',
    'C09-e': 'NOT caught, deliberately: rs.math.min is changed only for values of a non-total order (nan in the middle of a key). C09 is about scan folding *the operator\'s accumulator*; which of two incomparable values min() keeps is not specified by any property (C12, not a simulation target, covers finite sequences only)',
    'C19-f': 'needs the file to be read back at the moment the writer signals completion (file closed only afterwards): the simulated file now buffers writes until flush/close, dump_to_file is driven from a hot source and the file is re-read from inside the completion callback; the written file must be closed by then',
    'C16-f': 'needs the chunk holding the end of the zstd frame to be exactly k x 131075 bytes: fixed-size re-chunkings and tails aligned on the codecs\' own buffer constants added',
    'C10-f': 'needs a consumer that changes the length of the emitted batch in place: in-place consumers (drop a header, append a trailer) are generated behind batch/to_list, where the list is handed over',
    'C14-f': 'needs two different map keys with equal hashes (-1/-2, 0/\'\', n/n+2**61-1): hash-colliding keys added to C14 and to the group_by key functions',
    'C04-f': 'needs an impure key mapper (asked twice per new group): a round-robin mapper with recorded answers added; the partition model uses one answer per item',
    'C07-f': 'needs include_closing_item given as 1 / numpy.True_: non-bool flag values added, judged by the partition property only (whether they mean include is not specified)',
    'C13-f': 'needs an error mapper that returns the exception object it was given: identity mapper added',
    'C18-f': 'needs a string field that spells another column\'s value (\'42\', \'True\', \'2.5\'): such strings are generated now',
    'C01-f': 'needs a float state going 0.0 -> -0.0: a running product through signed zeros added',
    'C03-f': 'needs the sources=[...] form of with_store (several hot sources, each with its own pipeline, sharing one store): added as a C03 scenario with the protocol monitor on every boundary of every pipeline',
    'C09-f': 'NOT caught, deliberately: emit-before-persist in scan only shows under re-entrant delivery (a subscriber pushing the next item of the same key from inside its own on_next). That breaks the Rx contract that notifications are serialised; no property speaks about it, and the unchanged tree has other operators that are not re-entrant either',
    'C08-f': 'NOT caught, deliberately: needs a mux error raised inside the last tee_map branch that travels THROUGH the tee_map to a handler placed after it. C13 specifies handlers placed directly after the failing operator, C08 says nothing about errors (the unchanged tee_map forwards an upstream error once per branch)',
    'C01-m': 'needs assert_1 with a pair-sensitive predicate at a lifetime boundary of a reused slot: "previous and current item have the same split key" holds by construction inside split(K) and is generated there as first operator; a value cached across lifetimes makes it fail. Caught by C02 (the lifetime differential) - C01\'s dual-mode programs contain no split',
    'C02-m': 'the same change as C11-m (elapsed-time form of the expiry test): caught by C11 through unsigned numpy timestamps with clock skew; C02 is rightly silent (a moved window boundary, every lifetime is still a function of its items) and C07 has no out-of-order timestamps',
    'C03-m': 'needs one slot index reused over time for DIFFERENT key tuples, which the library\'s own group_by never produces: a hand-built, well-formed keyed source (cast_as_mux_observable) was added as a C03 scenario, with the protocol monitor on every boundary',
    'C08-m': 'needs a subscription with an explicit scheduler and a branch operator that depends on the subscribe-time scheduler: C08 now subscribes some cases with a scheduler and plants an operator that tags each item with the scheduler it was subscribed with; the branch must see what it sees when it runs alone',
    'C10-m': 'needs a text value and the int equal to its hash in one key (distinct stored hash(key) for text): a key function returning both added',
    'C11-m': 'needs timestamps for which a - b >= t and a >= b + t disagree: numpy.uint64 timestamps together with the clock-skew fault (a difference of timestamps wraps around) added; float timestamps on a decimal grid are NOT generated (there the two forms differ by rounding and the statement does not say which is meant)',
    'C13-m': 'needs the same exception object raised for several items (a sentinel error, a failed Future): fault mode "shared" added',
    'C16-m': 'NOT caught, deliberately: compress starts a new gzip member after 1 GiB of input and decompress reads the first member only. It needs more than 2**30 bytes through one subscription; the simulation stops at a few MiB per stream (a 1 GiB case costs about 10 s and the threshold could as well be 4 GiB)',
    'C18-m': 'needs an empty row sequence dumped onto a path that already holds an earlier dump (the file was no longer truncated when nothing is written): an earlier, longer dump onto the same path is a generated dimension of C18 and C19 now (the simulated disk knows append mode)',
    'C19-m': 'needs a file name whose extension suggests another compression than the one given (load_from_file guessed from the name, dump_to_file did not): file names are generated (export.json.gz written without compression, ...)',
    'C03-k': 'needs two store scopes chained on one multiplexed stream (multiplex(pipe(with_store(a, ...), with_store(b, ...)))): added as a C03 scenario (the generated pipeline is cut into two scopes at a seeded position)',
    'C04-k': 'needs a key_mapper that is a callable object with a false truth value: every key function (group_by, split, distinct, distinct_until_changed) is now also generated wrapped in such an object - which showed that the unchanged distinct / distinct_until_changed had exactly this defect (fixed in b9dc046)',
    'C13-k': 'needs the dead-letter observable to be subscribed after the data stream (before the first item): subscription order is a generated dimension of the router cases now',
    'C16-k': 'needs a producer that reuses one mutable buffer for all chunks (memoryview of a bytearray overwritten after each on_next): added for compress and decompress',
    'C17-k': 'needs a single chunk of exactly k MiB + 1 bytes: a long-text scenario cuts 2-3 MiB of encoded text into single chunks of 2**k - 1, 2**k, 2**k + 1 bytes for k = 16..21 (with and without a short leading chunk)',
    'C19-k': 'caught by C17 (the change is in rxsci/data/codec.py: U+FEFF dropped at the start of every decoded chunk, not only the first); C19 would need U+FEFF in a string exactly at a 64 KiB read boundary',
    'C06-j': 'needs an impure split predicate (the change asks it twice on every item that opens a segment): a counting predicate with recorded answers added (as for group_by key mappers); the run model uses one answer per item',
    'C15-j': 'needs more than 4 MiB through one length-prefix subscription with a chunk ending inside a payload: a long-stream scenario (3-13 MiB in fixed-size chunks, items generated inside the check) added to both tiers',
    'C18-j': 'needs string fields whose values are instances of a subclass of str (a user class, numpy.str_): added',
    'C01-j': 'needs a non-empty but false iterable as flat_map input (a one-element numpy array holding 0): numpy arrays [], [0], [0, 1] are generated as flat_map inputs now (their elements are numpy scalars and stay away from comparing/typed operators)',
    'C09-j': 'needs a consumer that changes, in place, the list a *reduced* scan hands over for a key that received nothing, and a later lifetime of the slot: the reduced list accumulator is typed as owned by the consumer now and a dedicated C09 scenario (filter that empties lifetimes > scan(reduce) > in-place consumer under split/roll) was added',
    'C07-j': 'needs a closing_mapper that is a callable object with a false truth value: added',
    'C10-j': 'as built only the thorough tier saw it (equal-but-distinguishable neighbours such as 1, 1.0, True are rare in the streams); a mapper producing such values was added and the quick tier sees it',
    'C05-j': 'needs window slot indices >= 2**20 (a quarter of a million groups under an overlapping roll): an ultra-wide scenario (70 000 / 270 000 groups) was added to the thorough tier of C05, next to the ultra-long single key',
    'C14-j': 'NOT caught, deliberately: del_map (not among the operations the statement lists; group_by calls it only immediately before del_key of the same parent, where recycling the index is legitimate) hands its index back while the entry stays readable. Visible only by calling del_map on a parent that stays alive, which neither the statement nor any operator does',
    'C02-j': 'caught by C07 (the time_split model). C02 is rightly silent: the change moves a window *boundary* (a stale last-timestamp makes the window after an excluded closing item expire early); every observed lifetime is still a function of the items it received, which is all C02 compares - where the boundaries fall is C07\'s subject',
    'C11-i': 'needs a time-out of zero (a clean-up replaced `is not None` by a truth test): zero time-outs are generated now (the first item of a key then expires the window it has just opened: empty leading windows are typed accordingly)',
    'C05-i': 'NOT caught, deliberately: roll no longer restarts its stride grid after a *handled* key error. It needs a mux error that travels through roll to handlers that are not directly behind the failing operator (C13 specifies handlers placed directly after; C05 says nothing about errors); whether the grid restarts after such an error is not specified',
    'C19-i': 'as built caught by C16 only (several compressors alive at once, chunks interleaved by the seeded schedule); C19 now also writes two files at the same time from interleaved hot sources (one source split into two files) and reads both back',
    'C18-h': 'needs the csv schema given as a typing.NamedTuple class with default values: such schemas (with and without defaults) are generated now',
    'C06-h': 'needs predicate values that are equal only to themselves (plain objects shared by consecutive items): added as a predicate family',
    'C14-h': 'needs a state data type that is a subclass of float (numpy.float64, a user class): C14 declares such types now, scan runs with a numpy.float64 seed in C01/C02/C09, and numpy scalars keep their type in the canonical form',
    'C10-h': 'needs a start_with padding that is an iterable other than list/tuple: tuple, range and deque paddings added',
    'C04-h': 'the protocol monitor (C03) and the lifetime differential (C02) saw it in the quick tier as built, C04 itself only in the thorough tier; after wave 9 C04 generates three-level nestings (group_by > roll or split > group_by) and sees it in the quick tier too',
    'C04-i': 'as built seen by C03 and C02 only; C04 now generates group_by > overlapping roll > group_by (sparse parent indices of the inner group map) and catches it itself',
    'C08-g': 'needs a fatal on_error raised inside a branch that is not the last one (a failing assert_): C08 now puts an assert_ that fails on one value into a branch in one case of four and demands that the tee ends with on_error in the source event, and with the error, with which that branch ends when run alone',
    'C05-g': 'needs an unhandled mux error that travels through roll (no open window at that moment) to the demultiplexer: C13 with handler "none" now also puts stateful and window operators behind the failing operator',
    'C07-g': 'NOT caught, deliberately: closing_mapper is evaluated for items that open a window by timeout too, which only shows when closing_mapper raises on, or counts, such an item. With a pure total closing_mapper (all the property quantifies over) the windows are identical; when the mapper is evaluated is not specified',
    'C03-g': 'NOT caught, deliberately: needs a scan *terminator* that raises at key completion. No property specifies a failing terminator (C13 lists the user functions of map, starmap, filter and scan "on an item"; C03 quantifies over programs, inputs and schedules). Tried: on the unchanged tree a raising terminator is caught by the try block of the nearest upstream map/filter/scan and turned into a mux error for a key that has just been completed, i.e. the same breach - so an oracle for it could not be quiet on the unchanged tree',
    'C02-g': 'NOT caught, deliberately: needs an accumulator that returns a float for an int seed, so that the typed state array rejects the value - the stated precondition (accumulators return values of the seed\'s type) excludes it',
    'C08-c': 'NOT caught, deliberately: it only shows when the *same* tee_map observable is subscribed a second time. Re-subscription is not in the property (and is not something rxsci supports in general: the publish() subject of tee_map is created once per pipeline and dies with the first completion - a resubscription oracle raised false alarms on the unchanged tree and was removed)',
    'C13-c': 'NOT caught, deliberately: it needs the same error router to be reused for a second stream lifetime after a first one ended in on_error; the property speaks about one stream ("completes with the stream"), so a single-use router would satisfy it - an oracle for reuse would be stronger than the text',
}
rows = []
for d in sorted(glob.glob(os.path.join(HERE, 'seeded', '*'))):
    if not os.path.isdir(d):
        continue
    m = json.load(open(os.path.join(d, 'meta.json')))
    v = m.get('verification', {})
    name = os.path.basename(d)
    caught = v.get('caught_by') or {}
    rows.append('| %s | %s | %s | %s | %s | %s |' % (
        name, m.get('property'), (m.get('summary') or '').replace('|', '/').replace('\n', ' ')[:160],
        (m.get('needs') or '').replace('|', '/').replace('\n', ' ')[:160],
        ', '.join('%s (%s)' % (k, t) for k, t in caught.items()) or '**none**', NOTES.get(name, '')))
out = ['# Seeded breaking changes (written by independent sub-agents, confirmed by tools/seeded.py)', '',
       'Every change keeps the pinned suite green, and its demo.py exits 0 on the unchanged tree and 1 on the changed one.', '',
       '| id | property | change | needs | caught by (tier) | note |', '|---|---|---|---|---|---|'] + rows
open(os.path.join(HERE, 'seeded', 'RESULTS.md'), 'w').write('\n'.join(out) + '\n')
print('\n'.join(out[-len(rows):])[:3000])
