#!/venv/bin/python
"""Runs every check against a behaviour-preserving refactoring of rxsci (written by an independent sub-agent):
every check must stay silent.  usage: tools/neutral.py <dir with patch.diff, notes.md> <name> [--budget S] [checks...]
Result in /verif/neutral/<name>/."""
import json
import os
import shutil
import subprocess
import sys
import tempfile

VERIF = os.path.dirname(os.path.dirname(os.path.abspath(__file__)))
ALL = ['C01', 'C02', 'C03', 'C04', 'C05', 'C06', 'C07', 'C08', 'C09', 'C10', 'C11', 'C13', 'C14', 'C15', 'C16', 'C17', 'C18', 'C19']


def sh(cmd, **kw):
    return subprocess.run(cmd, capture_output=True, text=True, **kw)


def main():
    args = sys.argv[1:]
    budget = '12'
    if '--budget' in args:
        i = args.index('--budget')
        budget = args[i + 1]
        del args[i:i + 2]
    src, name = args[0], args[1]
    checks = args[2:] or ALL
    wt = tempfile.mkdtemp(prefix='rxsci-neutral-', dir='/tmp')
    os.rmdir(wt)
    res = {'checks': {}}
    try:
        assert sh(['git', '-C', '/repo', 'worktree', 'add', '--detach', wt, 'HEAD']).returncode == 0
        a = sh(['git', '-C', wt, 'apply', os.path.abspath(os.path.join(src, 'patch.diff'))])
        res['patch_applies'] = a.returncode == 0
        if a.returncode != 0:
            print('PATCH DOES NOT APPLY', a.stderr)
            return 1
        env = dict(os.environ, PYTHONPATH=wt, PYTHONDONTWRITEBYTECODE='1')
        s = sh(['/venv/bin/python', '-m', 'pytest', '-q', '-p', 'no:cacheprovider', '--timeout=900'], env=env, cwd=wt, timeout=1200)
        res['suite_exit'] = s.returncode
        res['suite_tail'] = s.stdout.strip().splitlines()[-1] if s.stdout.strip() else ''
        print('suite on the refactoring: %s (exit %d)' % (res['suite_tail'], s.returncode))
        for cid in checks:
            c = sh([os.path.join(VERIF, 'check'), cid, '--tier', 'quick', '--no-evidence', '--budget', budget],
                   env=dict(os.environ, VERIF_REPO=wt), timeout=3600)
            lines = [l for l in c.stdout.splitlines() if l.startswith(('violation class', 'HARNESS', 'KNOWN'))]
            res['checks'][cid] = {'exit': c.returncode, 'lines': [l[:600] for l in lines[:4]]}
            print('  %s: exit %d' % (cid, c.returncode))
            for l in lines[:3]:
                print('      ' + l[:500])
            if c.returncode == 2:
                print(c.stdout[-1500:])
    finally:
        sh(['git', '-C', '/repo', 'worktree', 'remove', '--force', wt])
        shutil.rmtree(wt, ignore_errors=True)
    dst = os.path.join(VERIF, 'neutral', name)
    os.makedirs(dst, exist_ok=True)
    for f in ('patch.diff', 'notes.md'):
        if os.path.exists(os.path.join(src, f)):
            shutil.copy(os.path.join(src, f), os.path.join(dst, f))
    res['alarms'] = sorted(k for k, v in res['checks'].items() if v['exit'] != 0)
    with open(os.path.join(dst, 'result.json'), 'w') as f:
        json.dump(res, f, indent=1)
    print('RESULT', name, 'suite_exit=%s' % res.get('suite_exit'), 'alarms=%s' % res['alarms'])
    return 0


if __name__ == '__main__':
    sys.exit(main())
