"""C18 - CSV dump/load round-trips typed rows (partial fit: field content is
ordinary input generation; the simulated dimension is where the character
stream / the file is cut)."""
import math
import random
from collections import namedtuple

import rx
import rxsci.container.csv as csv
import rxsci.framing.line as line

from rxsim.runner import Check, Outcome
from rxsim.bytesim import gen_cuts, cut, drive, collect, SimDisk, dump_then_load_on_completion

SEPS = [',', ';', '|', '\t', '::']
ESCS = ['\\', '^']
FLOATS = [0.0, -0.0, 2.5, 1.5, -1.5, -0.5, 0.1, 2.655, 17.577, 1e-05, 1.5e-07, 1e+16, 1.7976931348623157e+308, 5e-324, -123456.789, 3.0, 100.0, 1e22]


def mk_str(rng, sep, esc):
    alpha = ['a', 'b', 'Z', ' ', ' ', '"', esc, esc, "'", '0', '-', '.', '\u00e9', '\u20ac', '\U0001F600', '\ufeff', '\ufeff', '\u200b'] + list(sep) + [sep, sep]
    n = rng.choice([0, 1, 1, 2, 3, 5, 9])
    return ''.join(rng.choice(alpha) for _ in range(n))


def field_eq(t, got, exp):
    if t == 'int':
        return type(got) is int and got == exp
    if t == 'float':
        return type(got) is float and got == exp and math.copysign(1, got) == math.copysign(1, exp)
    if t == 'bool':
        return type(got) is bool and got == exp
    return type(got) is str and got == exp


class Label(str):
    """a subclass of str (values of str-typed fields may be instances of it)"""


NT_DEFAULTS = {'int': -1, 'float': 0.5, 'bool': True, 'str': 'n/a'}


def nt_class(names, cols, defaults):
    """class x(typing.NamedTuple): c0: int; c1: str = 'n/a' ... (defaults on the last half of the fields)"""
    import typing
    first_default = len(names) // 2 if defaults else len(names)
    src = 'class x(typing.NamedTuple):\n'
    for i, (n, t) in enumerate(zip(names, cols)):
        src += '    %s: %s%s\n' % (n, t, ' = %r' % (NT_DEFAULTS[t],) if i >= first_default else '')
    ns = {'typing': typing}
    exec(src, ns)
    return ns['x']


class C18(Check):
    id = 'C18'
    title = 'CSV dump/load round-trips typed rows'
    rule = ('case = rows of 1..8 typed columns (int incl. negative and big, float as str() prints it incl. negative / -0.0 / exponent forms, bool, '
            'str without newline but with separators, quotes, escape characters, blanks at either end, empty) x separator in {",", ";", "|", tab, '
            '"::"} x escape char in {backslash, ^}; path A: real csv.dump() -> character stream re-cut by a seeded schedule (inside quoted fields '
            'and escape pairs) -> real line.unframe() -> real csv.load(); path B: real dump_to_file onto a simulated disk -> real load_from_file '
            'through open_obj with a short-read schedule (thorough: images > 64 KiB read with full-size reads); schema as a list or as a typing.NamedTuple class with and without default values; string values also as instances of str subclasses (a user class, numpy.str_). oracle: rows equal field by field '
            '(floats by value and sign). non-trivial: >= 2 rows and a str column holding a separator, quote or escape char, or a float column; '
            'distinct = distinct (rows, configuration, schedule)')
    real = ['rxsci.container.csv dump/load/dump_to_file/load_from_file/create_line_parser, rxsci.framing.line, rxsci.io.file (current working tree)',
            'RxPY core']
    stubs = ['simulated disk / file objects handed in through the documented open_obj seam (short reads)', 'transport re-cutting the character stream',
             'final subscriber']
    assumptions = ['strings contain neither \\n nor \\r', 'the header line is written (header=True) and the matching schema, separator and escape char are used for loading']
    probe_names = ('path_holds_an_earlier_dump', 'str_subclass_values', 'schema_is_NamedTuple_class', 'read_back_inside_completion', 'str_spells_other_type', 'zwnbsp_in_str', 'path:mem', 'path:file', 'short_reads', 'file>64KiB', 'negative_float', 'str_ends_with_escape', 'sep_in_str', 'quote_in_str',
                   'multi_char_sep', 'blank_edges', 'empty_str', 'cut_inside_line')
    quick_cap = 150000

    def gen(self, rng, tier):
        sep = rng.choice(SEPS)
        esc = rng.choice(ESCS)
        ncol = rng.randint(1, 8)
        cols = [rng.choice(['int', 'float', 'bool', 'str', 'str']) for _ in range(ncol)]
        big = rng.random() < (0.03 if tier == 'quick' else 0.2)
        nrows = rng.choice([0, 1, 2, 3, 6]) if not big else rng.choice([1500, 4000])
        rows = []
        for _ in range(nrows):
            row = []
            for t in cols:
                if t == 'int':
                    row.append(rng.choice([0, 1, -1, 7, 42, -42, 10 ** 12, -10 ** 18, rng.randint(-999, 999)]))
                elif t == 'float':
                    row.append(rng.choice(FLOATS + [rng.uniform(-1000, 1000), round(rng.uniform(-10, 10), 3), float(rng.randint(-5, 5))]))
                elif t == 'bool':
                    row.append(rng.random() < 0.5)
                else:
                    s = mk_str(rng, sep, esc)
                    if rng.random() < 0.12:
                        # a string that spells a value of another column type (a cache keyed by the field text alone...)
                        s = rng.choice(['42', '7', '-1', 'True', 'False', '2.5', '0.0', '-0.0', '1e-05', '', 'None', '0'])
                    if rng.random() < 0.1:
                        s = ' ' + s + ' '
                    row.append(s)
            rows.append(row)
        path = rng.choice(['mem', 'file', 'file'])
        case = {'cols': cols, 'rows': rows, 'sep': sep, 'esc': esc, 'path': path, 'cutseed': rng.randrange(1 << 30)}
        if path == 'file' and rng.random() < 0.25:
            case['stale'] = True
        if rng.random() < 0.15:
            # string fields whose values are instances of a subclass of str (a user class, numpy.str_)
            case['strsub'] = rng.choice(['cls', 'np'])
        if rng.random() < 0.3:
            # the schema as a typing.NamedTuple class, with or without default values for its last fields
            case['schema'] = rng.choice(['nt', 'ntd', 'ntd'])
        if path == 'file':
            case['ack'] = rng.random() < 0.4
            case['encoding'] = rng.choice([None, 'utf-8', 'utf-8'])
            case['reads'] = [] if big else [rng.choice([1, 2, 3, 5, 7, 16, 64, 1000]) for _ in range(rng.choice([0, 1, 2, 5]))]
        return case

    def valid(self, case):
        try:
            if case['sep'] not in SEPS or case['esc'] not in ESCS or not (1 <= len(case['cols']) <= 8):
                return False
            if any(t not in ('int', 'float', 'bool', 'str') for t in case['cols']):
                return False
            if case.get('encoding') not in (None, 'utf-8'):
                return False
            for row in case['rows']:
                if len(row) != len(case['cols']):
                    return False
                for t, v in zip(case['cols'], row):
                    if t == 'int' and type(v) is not int:
                        return False
                    if t == 'float' and (type(v) is not float or not math.isfinite(v)):
                        return False
                    if t == 'bool' and type(v) is not bool:
                        return False
                    if t == 'str' and (type(v) is not str or '\n' in v or '\r' in v):
                        return False
            if case.get('schema', 'list') not in ('list', 'nt', 'ntd') or case.get('strsub') not in (None, 'cls', 'np'):
                return False
            return case['path'] in ('mem', 'file')
        except (KeyError, TypeError):
            return False

    def execute(self, case):
        out = Outcome()
        p = out.probes
        cols = case['cols']
        names = ['c%d' % i for i in range(len(cols))]
        schema = case.get('schema', 'list')
        if schema == 'list':
            X = namedtuple('x', names)
            dtype = [(n, t) for n, t in zip(names, cols)]
        else:
            X = dtype = nt_class(names, cols, schema == 'ntd')
            p['schema_is_NamedTuple_class'] += 1
        rows = [X(*r) for r in case['rows']]
        if case.get('strsub'):
            import numpy as np
            sub = Label if case['strsub'] == 'cls' else np.str_
            rows = [X(*[sub(v) if type(v) is str else v for v in r]) for r in rows]
            p['str_subclass_values'] += 1
        sep, esc = case['sep'], case['esc']
        parser = csv.create_line_parser(dtype=dtype, separator=sep, escapechar=esc)
        p['path:' + case['path']] += 1
        got, term = None, None
        steps = 1
        if case['path'] == 'mem':
            lines, t = collect(rx.from_(rows).pipe(csv.dump(separator=sep, escapechar=esc)))
            if t is None or t[0] != 'completed':
                out.add('dump-failed', 'csv', {'terminal': repr(t)})
                return out
            stream = ''.join(lines)
            n = len(stream)
            hot = [i for i, ch in enumerate(stream) if ch in ('"', esc, sep[0], '\n')]
            cuts = case['cuts'] if case.get('cuts') is not None else gen_cuts(random.Random(case['cutseed']), n, hot[:80])
            got, term, _ = drive(cut(stream, cuts), rx.pipe(line.unframe(), csv.load(parser)))
            steps = len(cuts) + 1
            if any(0 < c < n and stream[c - 1] != '\n' for c in cuts):
                p['cut_inside_line'] += 1
            out.ticks = n
        else:
            disk = SimDisk(short_reads=case.get('reads') or ())
            enc = case.get('encoding')
            if case.get('stale'):
                # the path already holds an earlier, longer dump (an output path reused by a second run)
                old_rows = [X(*[{'int': 7, 'float': 1.5, 'bool': True, 'str': 'old'}[t] for t in cols])] * 3
                _, t0 = collect(rx.from_(old_rows).pipe(csv.dump_to_file('sim.csv', separator=sep, escapechar=esc, encoding=enc, open_obj=disk.open)))
                if t0 is None or t0[0] != 'completed' or not disk.files.get('sim.csv'):
                    out.add('dump_to_file-failed', 'csv', {'terminal': repr(t0), 'step': 'earlier dump'})
                    return out
                p['path_holds_an_earlier_dump'] += 1
            if case.get('ack'):
                t, got, term, still_open = dump_then_load_on_completion(
                    rows, csv.dump_to_file('sim.csv', separator=sep, escapechar=esc, encoding=enc, open_obj=disk.open),
                    lambda: csv.load_from_file('sim.csv', parser, encoding=enc, open_obj=disk.open), disk)
                p['read_back_inside_completion'] += 1
                if t is not None and t[0] == 'completed' and still_open:
                    out.add('file-open-at-completion', 'csv', {'open_files': still_open})
                    return out
            else:
                _, t = collect(rx.from_(rows).pipe(csv.dump_to_file('sim.csv', separator=sep, escapechar=esc, encoding=enc, open_obj=disk.open)))
            if t is None or t[0] != 'completed':
                out.add('dump_to_file-failed', 'csv', {'terminal': repr(t), 'encoding': enc})
                return out
            if not case.get('ack'):
                got, term = collect(csv.load_from_file('sim.csv', parser, encoding=enc, open_obj=disk.open))
            size = len(disk.files.get('sim.csv', b''))
            out.ticks = size
            steps = disk.reads
            out.faults['short_read'] += disk.short
            if disk.short:
                p['short_reads'] += 1
            if size > 65536:
                p['file>64KiB'] += 1
        if term is None or term[0] != 'completed':
            out.add('load-failed', 'csv', {'terminal': repr(term), 'rows': case['rows'][:3]})
        elif len(got) != len(rows):
            out.add('row-count', 'csv', {'expected': len(rows), 'got': len(got)})
        else:
            for ri, (g, e) in enumerate(zip(got, rows)):
                bad = [(ci, cols[ci], e[ci], g[ci]) for ci in range(len(cols)) if not field_eq(cols[ci], g[ci], e[ci])]
                if bad:
                    ci, t, ev, gv = bad[0]
                    out.add('field', t, {'row': ri, 'column': ci, 'expected': repr(ev), 'got': repr(gv), 'sep': sep, 'esc': esc,
                                         'line_row': [repr(x) for x in e]})
                    break
        out.steps = steps
        out.digest = repr(([tuple(g) for g in got] if got else got, repr(term), [v.to_json() for v in out.violations]))
        out.shape = (repr(case['rows']), tuple(cols), sep, esc, case['path'], case.get('encoding'), tuple(case.get('reads') or ()), case['cutseed'])
        strs = [v for r in case['rows'] for t, v in zip(cols, r) if t == 'str']
        flts = [v for r in case['rows'] for t, v in zip(cols, r) if t == 'float']
        out.nontrivial = len(rows) >= 2 and (any(sep in s or '"' in s or esc in s for s in strs) or bool(flts))
        if any(v < 0 or (v == 0 and math.copysign(1, v) < 0) for v in flts):
            p['negative_float'] += 1
        if any(s.endswith(esc) for s in strs):
            p['str_ends_with_escape'] += 1
        if any(sep in s for s in strs):
            p['sep_in_str'] += 1
        if any('"' in s for s in strs):
            p['quote_in_str'] += 1
        if len(sep) > 1:
            p['multi_char_sep'] += 1
        if any(s != s.strip() for s in strs):
            p['blank_edges'] += 1
        if any(s == '' for s in strs):
            p['empty_str'] += 1
        if any(s in ('42', '7', '-1', 'True', 'False', '2.5', '0.0', '-0.0', '1e-05', 'None', '0') for s in strs):
            p['str_spells_other_type'] += 1
        if any('\ufeff' in s for s in strs):
            p['zwnbsp_in_str'] += 1
        return out

    def signature(self, case, v):
        if v.kind == 'dump_to_file-failed' and v.detail.get('encoding') is None:
            return 'dump_to_file-failed|csv|default encoding'
        return '%s|%s' % (v.kind, v.op)


CHECK = C18()
