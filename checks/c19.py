"""C19 - JSON-lines dump/load round-trips objects, with or without compression.

The four-stage streaming pipeline (file -> decompress -> decode -> unframe ->
parse) runs under the transport the simulator owns: a simulated disk reached
through the documented open_obj seam, whose read() returns short reads from a
seeded schedule."""
import math
import random

import rx
import rxsci.container.json as rsjson
import rxsci.framing.line as line

from rxsim.runner import Check, Outcome
from rxsim.bytesim import gen_cuts, cut, drive, collect, SimDisk, dump_then_load_on_completion, dump_concurrently, merge_order

STRS = ['', 'a', 'line\nbreak', 'quote"inside', 'back\\slash', 'tab\there', 'é€', '\U0001F600\U00010348', '\r\n', '{"k": 1}', ' ', 'x' * 40,
        ' ', '\x00\x1f']


def mk_value(rng, depth):
    r = rng.random()
    if depth > 0 and r < 0.15:
        return [mk_value(rng, depth - 1) for _ in range(rng.choice([0, 1, 2, 3]))]
    if depth > 0 and r < 0.3:
        return dict((rng.choice(['k', 'a\nb', 'é', 'n%d' % i]), mk_value(rng, depth - 1)) for i in range(rng.choice([0, 1, 2])))
    if r < 0.45:
        return rng.choice([0, 1, -1, 2 ** 63 - 1, -2 ** 63, 2 ** 53 + 1, rng.randint(-10 ** 6, 10 ** 6)])
    if r < 0.6:
        return rng.choice([0.0, -0.0, 1.5, -2.25, 1e-7, 1e22, 0.1, 1.7976931348623157e+308, 5e-324, rng.uniform(-1e6, 1e6)])
    if r < 0.7:
        return rng.choice([True, False, None])
    return rng.choice(STRS)


def expand(x):
    """{'$big': [kind, n, seed]} stands for a long string (kept out of the case document)."""
    if isinstance(x, dict):
        if list(x.keys()) == ['$big']:
            kind, n, seed = x['$big']
            if kind == 'a':
                return ('abc\u00e9' * (n // 4 + 1))[:n]
            r = random.Random(seed)
            return ''.join(r.choice('abcdefghijklmnopqrstuvwxyz0123456789 \u00e9\u20ac"\\\n') for _ in range(n))
        return dict((k, expand(v)) for k, v in x.items())
    if isinstance(x, list):
        return [expand(v) for v in x]
    return x


def latin1(x):
    """the same structure with every string restricted to U+0000..U+00FF (orjson escapes nothing above ASCII)"""
    if isinstance(x, str):
        return ''.join(c if ord(c) < 256 else chr(0xC0 + ord(c) % 0x3F) for c in x)
    if isinstance(x, dict):
        if list(x.keys()) == ['$big']:
            return {'$big': ['a', x['$big'][1], x['$big'][2]]}
        return dict((latin1(k), latin1(v)) for k, v in x.items())
    if isinstance(x, list):
        return [latin1(v) for v in x]
    return x


def deep_eq(a, b):
    if type(a) is not type(b):
        return False
    if isinstance(a, float):
        return a == b and math.copysign(1, a) == math.copysign(1, b)
    if isinstance(a, list):
        return len(a) == len(b) and all(deep_eq(x, y) for x, y in zip(a, b))
    if isinstance(a, dict):
        return list(a.keys()) == list(b.keys()) and all(deep_eq(a[k], b[k]) for k in a)
    return a == b


def json_text(x):
    import json as _json
    return _json.dumps(x, ensure_ascii=False)


class C19(Check):
    id = 'C19'
    title = 'JSON-lines dump/load round-trips, with or without compression'
    rule = ('case = list of dicts (nested lists/dicts, 64-bit ints, finite floats, booleans, null inside objects, arbitrary Unicode strings incl. '
            'newlines and quotes) written by the real json.dump_to_file(compression in {None, gzip, zstd}) onto a simulated disk and read back by '
            'the real json.load_from_file through open_obj with a seeded short-read schedule (cuts inside multi-byte characters, inside the '
            'gzip/zstd stream, at line ends; thorough: several 64 KiB read chunks with full-size reads); a quarter of the file cases write two files at the same time from interleaved hot sources, 40% read the file back from inside the writer\'s completion callback; also json.dump() -> re-cut character '
            'stream -> line.unframe() -> json.load(). oracle: items equal (type-exact, floats by value and sign, key order) and in order. '
            'non-trivial: >= 2 items and >= 1 short read / cut inside the stream; distinct = distinct (items, configuration, schedule)')
    real = ['rxsci.container.json dump/load/dump_to_file/load_from_file, rxsci.io.file, rxsci.compression.z/zstd, rxsci.data.encode/decode, '
            'rxsci.framing.line (current working tree)', 'orjson, zlib, zstandard, codecs', 'RxPY core']
    stubs = ['simulated disk / file objects (open_obj seam, short reads)', 'final subscriber']
    assumptions = ['items are dicts (a top-level null is dropped by design); strings contain no lone surrogates; ints fit 64 bits']
    probe_names = ('path_holds_an_earlier_dump', 'file_name_suggests_other_compression', 'two_files_written_concurrently', 'read_back_inside_completion', 'encoding:utf-16', 'encoding:latin-1', 'object>64KiB', 'compression:None', 'compression:gzip', 'compression:zstd', 'short_reads', 'one_byte_reads', 'file>64KiB', 'multibyte_chars',
                   'newline_in_string', 'empty_file', 'path:mem')
    quick_cap = 100000

    def gen(self, rng, tier):
        big = rng.random() < (0.03 if tier == 'quick' else 0.2)
        n = rng.choice([0, 1, 2, 3, 6]) if not big else rng.choice([800, 3000])
        items = []
        for i in range(n):
            d = {'id': i}
            for k in range(rng.choice([0, 1, 2, 4])):
                d[rng.choice(['s', 'v', 'w', 'x\ny', 'ü'])] = mk_value(rng, 2)
            items.append(d)
        # one object larger than a 64 KiB read chunk (a line spanning three or more chunks), compressible or not
        if items and rng.random() < (0.03 if tier == 'quick' else 0.15):
            kind = rng.choice(['a', 'rand'])
            n1 = rng.choice([70000, 140000, 300000, 2500000 if kind == 'a' else 200000])
            items[rng.randrange(len(items))]['blob'] = {'$big': [kind, n1, rng.randrange(1000)]}
        case = {'items': items, 'compression': rng.choice([None, 'gzip', 'zstd']), 'path': 'file' if rng.random() < 0.8 else 'mem',
                'cutseed': rng.randrange(1 << 30)}
        case['ack'] = rng.random() < 0.4
        if case['path'] == 'file' and rng.random() < 0.25:
            case['stale'] = True
        if rng.random() < 0.25:
            case['fname'] = rng.choice(['export.json.gz', 'export.json.zst', 'DATA.GZ', 'x.zstd', 'lines.gzip', 'a.b.gz.json'])
        if case['path'] == 'file' and not case['ack'] and rng.random() < 0.25:
            # a second file written at the same time (one source split into two files): items interleaved by the seeded order
            case['twin'] = True
        # the optional encoding argument, given to both dump_to_file and load_from_file
        case['encoding'] = rng.choice(['utf-8', 'utf-8', 'utf-8', 'utf-8', 'utf-16', 'utf-32', 'latin-1'])
        if case['encoding'] == 'latin-1':
            case['items'] = items = latin1(items)
        if big or any('$big' in repr(i) for i in items):
            # megabytes read in 1-byte pieces would be millions of read() calls: full-size or large reads only
            case['reads'] = rng.choice([[], [4096], [65536, 1000, 30000]])
        else:
            case['reads'] = [rng.choice([1, 1, 2, 3, 5, 7, 13, 64, 500]) for _ in range(rng.choice([0, 1, 1, 2, 5]))]
        return case

    def valid(self, case):
        try:
            if case['compression'] not in (None, 'gzip', 'zstd') or case['path'] not in ('file', 'mem'):
                return False
            if case.get('encoding', 'utf-8') not in ('utf-8', 'utf-16', 'utf-32', 'latin-1'):
                return False
            if case.get('encoding') == 'latin-1' and any(ord(c) > 255 for c in json_text(case['items'])):
                return False
            if not all(isinstance(i, dict) for i in case['items']):
                return False
            import orjson
            for i in case['items']:
                orjson.dumps(i)
                expand(i) if '$big' in repr(i) else None
            if not isinstance(case.get('fname', 'sim.json'), str) or not case.get('fname', 'sim.json') or '/' in case.get('fname', ''):
                return False
            return all(isinstance(r, int) and r >= 1 for r in case.get('reads') or ())
        except Exception:
            return False

    def execute(self, case):
        out = Outcome()
        p = out.probes
        items = [expand(i) for i in case['items']]
        if any('$big' in repr(i) for i in case['items']):
            p['object>64KiB'] += 1
        comp = case['compression']
        steps = 1
        if case['path'] == 'mem':
            p['path:mem'] += 1
            lines, t = collect(rx.from_(items).pipe(rsjson.dump()))
            if t is None or t[0] != 'completed':
                out.add('dump-failed', 'json', {'terminal': repr(t)})
                return out
            stream = ''.join(lines)
            n = len(stream)
            cuts = gen_cuts(random.Random(case['cutseed']), n, [i for i, ch in enumerate(stream) if ch in '\n\\"'][:80])
            got, term, _ = drive(cut(stream, cuts), rx.pipe(line.unframe(), rsjson.load()))
            size = n
            short = sum(1 for c in cuts if 0 < c < n)
            steps = len(cuts) + 1
        else:
            p['compression:%s' % comp] += 1
            if case.get('encoding', 'utf-8') != 'utf-8':
                p['encoding:%s' % case['encoding']] += 1
            disk = SimDisk(short_reads=case.get('reads') or ())
            # the file name is the caller's business: it need not match the compression setting ('export.json.gz' written without compression)
            fname = case.get('fname', 'sim.json')
            fname2 = 'second-' + fname
            if fname != 'sim.json':
                p['file_name_suggests_other_compression'] += 1
            if case.get('stale'):
                # the path already holds an earlier, longer dump (an output path reused by a second run)
                _, t0 = collect(rx.from_([{'old': n, 'pad': 'x' * 40} for n in range(len(items) + 3)]).pipe(
                    rsjson.dump_to_file(fname, compression=comp, encoding=case.get('encoding', 'utf-8'), open_obj=disk.open)))
                if t0 is None or t0[0] != 'completed' or not disk.files.get(fname):
                    out.add('dump_to_file-failed', 'json', {'terminal': repr(t0), 'step': 'earlier dump', 'compression': comp})
                    return out
                p['path_holds_an_earlier_dump'] += 1
            enc = case.get('encoding', 'utf-8')
            if case.get('ack'):
                # hot source, and the file is read back from INSIDE the completion callback of the writer
                t, got, term, still_open = dump_then_load_on_completion(
                    items, rsjson.dump_to_file(fname, compression=comp, encoding=enc, open_obj=disk.open),
                    lambda: rsjson.load_from_file(fname, compression=comp, encoding=enc, open_obj=disk.open), disk)
                p['read_back_inside_completion'] += 1
                if t is not None and t[0] == 'completed' and still_open:
                    out.add('file-open-at-completion', 'json', {'open_files': still_open, 'compression': comp})
                    return out
            elif case.get('twin'):
                p['two_files_written_concurrently'] += 1
                items2 = [{'twin': n, 'of': it.get('id')} for n, it in enumerate(reversed(items))] + [{'twin': 'tail'}]
                order = merge_order(random.Random(case['cutseed']), [len(items), len(items2)])
                t, t2 = dump_concurrently([items, items2],
                                          [rsjson.dump_to_file(fname, compression=comp, encoding=enc, open_obj=disk.open),
                                           rsjson.dump_to_file(fname2, compression=comp, encoding=enc, open_obj=disk.open)], order)
                got, term = (None, None)
                if t2 is None or t2[0] != 'completed':
                    out.add('dump_to_file-failed', 'json', {'terminal': repr(t2), 'compression': comp, 'file': 'second of two'})
                    return out
                got2, term2 = collect(rsjson.load_from_file(fname2, compression=comp, encoding=enc, open_obj=disk.open))
                if term2 is None or term2[0] != 'completed' or len(got2) != len(items2) or not all(deep_eq(g, e) for g, e in zip(got2, items2)):
                    out.add('concurrent-file', 'json', {'terminal': repr(term2), 'compression': comp, 'expected': repr(items2)[:300],
                                                        'got': repr(got2)[:300]})
                    return out
            else:
                _, t = collect(rx.from_(items).pipe(rsjson.dump_to_file(fname, compression=comp, encoding=enc, open_obj=disk.open)))
                got, term = (None, None)
            if t is None or t[0] != 'completed':
                out.add('dump_to_file-failed', 'json', {'terminal': repr(t), 'compression': comp})
                return out
            if not case.get('ack'):
                got, term = collect(rsjson.load_from_file(fname, compression=comp, encoding=enc, open_obj=disk.open))
            size = len(disk.files.get(fname, b''))
            short = disk.short
            steps = disk.reads
            out.faults['short_read'] += disk.short
            if size == 0:
                p['empty_file'] += 1
            if size > 65536:
                p['file>64KiB'] += 1
            if disk.short:
                p['short_reads'] += 1
            if case.get('reads') and all(r == 1 for r in case['reads']):
                p['one_byte_reads'] += 1
        if term is None or term[0] != 'completed':
            out.add('load-failed', 'json', {'terminal': repr(term), 'compression': comp})
        elif len(got) != len(items):
            out.add('item-count', 'json', {'expected': len(items), 'got': len(got), 'compression': comp})
        else:
            for i, (g, e) in enumerate(zip(got, items)):
                if not deep_eq(g, e):
                    out.add('item', 'json', {'index': i, 'expected': repr(e)[:300], 'got': repr(g)[:300], 'compression': comp})
                    break
        out.steps = steps
        out.ticks = size
        out.digest = repr((repr(got)[:2000], repr(term), [v.to_json() for v in out.violations]))
        out.shape = (repr(items)[:5000], len(items), comp, case.get('encoding'), case['path'], tuple(case.get('reads') or ()), case['cutseed'])
        out.nontrivial = len(items) >= 2 and (short > 0 or size > 65536)
        txt = repr(items)
        if any(ord(c) > 127 for c in txt):
            p['multibyte_chars'] += 1
        if '\\n' in txt:
            p['newline_in_string'] += 1
        return out

    def signature(self, case, v):
        return '%s|%s' % (v.kind, v.op)


CHECK = C19()
