"""Checks decided by the timed reference models (rxsim.ref.local_check):
C04-C07, C09, C10, C11.  Each property is a generator bias plus the set of
(operator, finding kind) pairs that count for it."""
from rxsim.runner import Outcome
from rxsim.program import Gen, Flags, St, ops_in, depth_of, size_of, walk, WINDOWS
from rxsim.pipesim import run_mux, run_plain, lifetimes
from rxsim.ref import local_check, Finding
from rxsim.workload import gen_events, interleaving_degree
from .common import PipelineCheck, shape_of, find_nodes


def first_raiser(program, ctx):
    """The operator at whose output an error first appears although none
    entered it (fault-free programs must never raise)."""
    best = None
    for node, path, in_tap, out_tap, i in walk(program):
        if node['op'] in WINDOWS or node['op'] == 'tee_map':
            continue
        ein = [g for g, _, k, _, _ in ctx.taps.get(in_tap, []) if k in ('e', 'E')]
        eout = [(g, item) for g, _, k, _, item in ctx.taps.get(out_tap, []) if k in ('e', 'E')]
        if eout and not ein:
            if best is None or eout[0][0] < best[0]:
                best = (eout[0][0], node['op'], path, eout[0][1])
    return best


class ModelCheck(PipelineCheck):
    focus = ()            # operators whose findings count
    kinds = ()            # finding kinds that count
    weights = {}
    max_nest = 2
    wrap_prob = 0.6
    end_kinds = ('complete',) * 9 + ('error', 'dispose')
    values = ('small', 'small', 'inc', 'runs', 'dups', 'huge')

    def gen_program(self, rng, tier):
        g = Gen(rng, weights=self.weights, max_nest=self.max_nest, small=(tier == 'quick'))
        nest = rng.choice([1, 2, 2]) if tier == 'quick' else rng.choice([1, 2, 2, 3])
        grouped = rng.random() < self.wrap_prob
        inner = g.pipeline(St('rec', not grouped), Flags(deny=self.deny()), nest, rng.choice([1, 2, 2, 3, 4]))
        if grouped:
            return [{'op': 'group_by', 'key': rng.choice(['rk', 'rk_big', 'rk_tup']), 'inner': inner}]
        return inner

    def deny(self):
        return ()

    def gen(self, rng, tier):
        parties, maxev = self.sizes(rng, tier)
        if rng.random() < 0.04:
            parties = 0
        program = self.gen_program(rng, tier)
        ts = find_nodes(program, lambda n: n['op'] == 'time_split')
        to = (ts[0].get('active'), ts[0].get('inactive')) if ts else (None, None)
        events, style = gen_events(rng, parties, maxev, timeouts=to, p_close=0.25 if ts else 0.0,
                                   values=rng.choice(self.values))
        end = rng.choice(self.end_kinds)
        return {'program': program, 'events': events, 'end': end, 'style': style,
                'driver': 'cold' if (end != 'dispose' and rng.random() < 0.1) else 'hot'}

    def relevant(self, f):
        return f.op in self.focus and f.kind in self.kinds

    def execute(self, case):
        out = Outcome()
        program = case['program']
        ctx, final, escaped = run_mux(program, case['events'], case['end'], monitor=False, driver=case.get('driver', 'hot'))
        out.shape = (shape_of(case), case.get('driver'))
        out.steps = len(case['events']) + 1
        out.ticks = case['events'][-1]['t'] if case['events'] else 0
        p = out.probes
        if ctx.aborted:
            p['aborted_work_budget'] += 1
            return out
        sut_error = escaped is not None or (final.terminal and final.terminal[0] == 'error' and
                                            not (case['end'] == 'error' and final.terminal[1][1] == 'SourceError'))
        if sut_error:
            p['sut_error'] += 1
            r = first_raiser(program, ctx)
            if r is not None:
                f = Finding('raised', r[1], r[2], {'error': r[3]})
            else:
                f = Finding('raised', 'pipeline', 'P', {'error': repr(escaped) if escaped is not None else final.terminal[1]})
            findings = [f]
        else:
            findings = local_check(program, ctx, 'mux', only=set(self.focus))
        for f in findings:
            if f.kind == 'raised' and (f.op in self.focus or 'raised-any' in self.kinds):
                out.add('raised', f.op, f.detail)
            elif self.relevant(f):
                out.add(f.kind, f.op, f.detail)
        out.digest = ctx.trace_digest() + repr(final.terminal) + repr([(f.kind, f.op, f.path) for f in findings])
        out.states = tuple(ctx.extra.get('states', ()))
        self.probe(case, ctx, out)
        return out

    def probe(self, case, ctx, out):
        ops = ops_in(case['program'])
        hit = [o for o in self.focus if o in ops]
        out.nontrivial = bool(hit) and len(case['events']) >= 3
        for o in hit:
            out.probes['op:' + o] += 1
        if case['end'] != 'complete':
            out.faults['source_' + case['end']] += 1
        if interleaving_degree(case['events']) >= 3:
            out.probes['interleaved>=3'] += 1


def sig_default(case, v):
    return '%s|%s' % (v.kind, v.op)
