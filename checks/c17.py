"""C17 - incremental text encode/decode is chunk-boundary independent."""
import random

import rx
import rxsci as rs

from rxsim.runner import Check, Outcome
from rxsim.bytesim import gen_cuts, cut, drive, collect, drive_concurrent, merge_order

ENCODINGS = ['utf-8', 'utf-16', 'utf-32', 'latin-1', 'utf-8-sig', 'utf-16-le', 'utf-16-be', 'utf8',
             # other spellings Python accepts for the same codecs
             'utf16', 'u16', 'utf32', 'u32', 'utf_16', 'UTF-16', 'UTF-8', 'utf_8', 'latin1', 'iso-8859-1', 'L1', 'utf_32', 'UTF-32', 'U8']
LATIN = ('latin-1', 'latin1', 'iso-8859-1', 'L1')


def family(enc):
    import codecs
    return codecs.lookup(enc).name          # 'utf-16', 'utf-8', 'iso8859-1', ...
POOL = ['a', 'Z', ' ', '\n', '\x00', 'é', 'ÿ', '\x80']
WIDE = ['\u20ac', '\u0436', '\u6f22', '\u0301', '\u200d', '\U0001F600', '\U00010348', '\U0010FFFF', '\ud7ff', '\ue000', '\ufffd', '\uffff', '\ufeff', '\ufeff']


def inc_kw(case):
    """the `incremental` argument: left out (default True), or given as a true value that is not the builtin True"""
    v = case.get('incremental')
    if v == 'np_true':
        import numpy
        return {'incremental': numpy.bool_(True)}
    if v == 'one':
        return {'incremental': 1}
    if v == 'true':
        return {'incremental': True}
    return {}


class C17(Check):
    id = 'C17'
    title = 'incremental text codec is chunk-boundary independent'
    rule = ('case = string list over the full scalar range (astral characters, combining marks, empty strings, U+FEFF as an '
            'ordinary character anywhere incl. the very start) encoded by the real encode() with utf-8 / utf-16 / utf-32 / latin-1 (+ utf-8-sig, utf-16-le/be); the concatenated bytes are '
            're-cut by a seeded byte-level schedule biased to the inside of multi-byte sequences and surrogate pairs, and for streams <= 300 bytes '
            'every single cut position is swept; fed through the real decode(). oracle: joined decoded text == joined input; the reference codec '
            'b"".join(encoded).decode(encoding) gives the same text (which also decides "BOM written once"). non-trivial: >= 1 multi-byte '
            'character and >= 1 cut strictly inside the stream; distinct = distinct (strings, encoding, schedule)')
    real = ['rxsci.data.encode / decode (current working tree)', 'codecs incremental encoders/decoders (CPython)', 'RxPY Subject/pipe']
    stubs = ['producer of the strings', 'transport re-cutting the bytes', 'final subscriber']
    assumptions = ['inputs contain no lone surrogates (not encodable)', 'latin-1 inputs are restricted to U+0000..U+00FF']
    probe_names = ('single_chunk>=1MiB', 'encoding_alias', 'concurrent_streams', 'signature_lookalike_prefix', 'zwnbsp_in_text', 'cut_inside_multibyte', 'astral', 'combining', 'empty_string', 'bom_encoding', 'swept_all_single_cuts',
                   'enc:utf-8', 'enc:utf-16', 'enc:utf-32', 'enc:latin-1')
    quick_cap = 200000

    def gen(self, rng, tier):
        if rng.random() < (0.003 if tier == 'quick' else 0.01):
            # one long text (2-3 MiB encoded), cut into single chunks whose sizes sit on and next to powers of two (64 KiB .. 2 MiB)
            enc = rng.choice(ENCODINGS)
            unit = ''.join(rng.choice(POOL if enc in LATIN else POOL + WIDE) for _ in range(rng.choice([5, 9, 17])))
            return {'encoding': enc, 'strings': [], 'long': {'unit': unit, 'bytes': rng.choice([2200000, 3200000])},
                    'cutseed': rng.randrange(1 << 30), 'sweep': False}
        enc = rng.choice(ENCODINGS)
        n = rng.choice([0, 1, 2, 3, 5]) if tier == 'quick' else rng.choice([0, 1, 3, 8, 30])
        strings = []
        pool = POOL if enc in LATIN else POOL + WIDE + WIDE
        for _ in range(n):
            strings.append(''.join(rng.choice(pool) for _ in range(rng.choice([0, 0, 1, 2, 4, 9, 30 if tier != 'quick' else 3]))))
        if strings and rng.random() < 0.12:
            # text whose first bytes look like the signature of *another* encoding
            look = ['\u00ef\u00bb\u00bf', '\u00ff\u00fe', '\u00fe\u00ff', '\u00ff\u00fe\x00\x00'] if enc in LATIN else \
                ['\ufeff', '\ufffe', '\u00ef\u00bb\u00bf', '\ufeff\ufeff']
            strings[0] = rng.choice(look) + strings[0]
        case = {'encoding': enc, 'strings': strings, 'cutseed': rng.randrange(1 << 30), 'sweep': rng.random() < 0.6}
        if rng.random() < 0.2:
            case['incremental'] = rng.choice(['np_true', 'one', 'true'])
        if rng.random() < 0.2:
            case['concurrent'] = [[''.join(rng.choice(pool) for _ in range(rng.choice([0, 1, 3, 8]))) for _ in range(rng.choice([1, 2, 3]))]
                                  for _ in range(rng.choice([1, 2]))]
        return case

    def valid(self, case):
        try:
            if case['encoding'] not in ENCODINGS:
                return False
            if case.get('incremental') not in (None, 'np_true', 'one', 'true'):
                return False
            lg = case.get('long')
            if lg is not None:
                u = lg['unit']
                if not (isinstance(u, str) and 1 <= len(u) <= 40 and 1000 <= lg['bytes'] <= 4000000) or case['strings']:
                    return False
                if any(0xD800 <= ord(c) <= 0xDFFF for c in u) or (case['encoding'] in LATIN and any(ord(c) > 255 for c in u)):
                    return False
            for s in case['strings']:
                if any(0xD800 <= ord(c) <= 0xDFFF for c in s):
                    return False
                if case['encoding'] in LATIN and any(ord(c) > 255 for c in s):
                    return False
            for st in case.get('concurrent') or ():
                for s2 in st:
                    if any(0xD800 <= ord(c) <= 0xDFFF for c in s2) or (case['encoding'] in LATIN and any(ord(c) > 255 for c in s2)):
                        return False
            return case.get('cuts') is None or all(isinstance(c, int) and c >= 0 for c in case['cuts'])
        except (KeyError, TypeError):
            return False

    def normalize(self, case):
        case = dict(case)
        if case.get('cuts') is not None:
            case['cuts'] = sorted(case['cuts'])
        return case

    def execute_long(self, case):
        out = Outcome()
        enc = case['encoding']
        lg = case['long']
        unit = lg['unit']
        reps = max(1, lg['bytes'] // max(1, len(unit.encode(enc if enc not in ('utf-16', 'utf-32') else enc + '-le'))))
        text = unit * reps
        pieces, t = collect(rx.from_([text[:1000], text[1000:]]).pipe(rs.data.encode(enc, **inc_kw(case))))
        blob = b''.join(pieces)
        if t is None or t[0] != 'completed' or blob.decode(enc) != text:
            out.add('encode-failed', enc, {'terminal': repr(t), 'long_text_chars': len(text)})
            return out
        n = len(blob)
        runs = 0
        for k in range(16, 22):
            for size in (2 ** k - 1, 2 ** k, 2 ** k + 1):
                for lead in (0, 7):
                    if lead + size >= n:
                        continue
                    cs = [c for c in (lead, lead + size) if c > 0]
                    runs += 1
                    got, term, _ = drive(cut(blob, cs), rs.data.decode(enc, **inc_kw(case)))
                    if term is None or term[0] != 'completed' or ''.join(got) != text:
                        j = ''.join(got)
                        d = next((x for x in range(min(len(j), len(text))) if j[x] != text[x]), min(len(j), len(text)))
                        out.add('roundtrip', enc, {'cuts': cs, 'encoded_bytes': n, 'terminal': repr(term), 'decoded_chars': len(j),
                                                   'expected_chars': len(text), 'first_difference_at_char': d})
                        break
                if out.violations:
                    break
            if out.violations:
                break
        out.steps = runs * 3
        out.ticks = n
        out.nontrivial = True
        out.shape = ('long', enc, unit, lg['bytes'])
        out.digest = repr((n, runs, [v.to_json() for v in out.violations]))
        out.probes['single_chunk>=1MiB'] += 1
        return out

    def execute(self, case):
        if case.get('long') is not None:
            return self.execute_long(case)
        out = Outcome()
        enc = case['encoding']
        strings = list(case['strings'])
        text = ''.join(strings)
        p = out.probes
        pieces, t = collect(rx.from_(strings).pipe(rs.data.encode(enc, **inc_kw(case))))
        if t is None or t[0] != 'completed':
            out.add('encode-failed', enc, {'terminal': repr(t)})
            return out
        blob = b''.join(pieces)
        try:
            ref = blob.decode(enc)
        except Exception as e:
            ref = e
        if ref != text:
            out.add('reference-codec-disagrees', enc, {'reference': repr(ref)[:300], 'text': repr(text)[:300], 'bytes': blob[:64].hex()})
            return out
        n = len(blob)
        # offsets strictly inside multi-byte sequences
        inside = set()
        try:
            fam = family(enc)
            base = {'utf-16': 'utf-16-le', 'utf-32': 'utf-32-le', 'utf-8-sig': 'utf-8'}.get(fam, fam)
            off = len(blob) - len(text.encode(base))
            for ch in text:
                w = len(ch.encode(base))
                inside.update(range(off + 1, off + w))
                off += w
        except Exception:
            pass
        if case.get('cuts') is not None:
            cuts = list(case['cuts'])
        else:
            cuts = gen_cuts(random.Random(case['cutseed']), n, sorted(inside)[:80])
        scheds = [cuts]
        if case.get('sweep') and n <= 300 and case.get('cuts') is None:
            scheds += [[k] for k in range(0, n + 1)]
            p['swept_all_single_cuts'] += 1
        runs = 0
        for cs in scheds:
            runs += 1
            got, term, _ = drive(cut(blob, cs), rs.data.decode(enc, **inc_kw(case)))
            if term is None or term[0] != 'completed' or ''.join(got) != text:
                out.add('roundtrip', enc, {'cuts': cs, 'terminal': repr(term), 'got': repr(''.join(got))[:300], 'expected': repr(text)[:300]})
                break
        if not out.violations and case.get('concurrent'):
            streams = [strings] + [list(x) for x in case['concurrent']]
            rng = random.Random(case['cutseed'] ^ 0x99)
            res = drive_concurrent(streams, lambda i: rs.data.encode(enc, **inc_kw(case)), merge_order(rng, [len(x) for x in streams]))
            p['concurrent_streams'] += 1
            blobs = [b''.join(o) for o, _ in res]
            for i, (o, t_i) in enumerate(res):
                try:
                    ok = blobs[i].decode(enc) == ''.join(streams[i])
                except Exception:
                    ok = False
                if t_i is None or t_i[0] != 'completed' or not ok:
                    out.add('concurrent-encode', enc, {'stream': i, 'of': len(streams), 'terminal': repr(t_i)})
                    break
            if not out.violations:
                cl = [cut(b, gen_cuts(rng, len(b), [1, 2, 3])) for b in blobs]
                res = drive_concurrent(cl, lambda i: rs.data.decode(enc, **inc_kw(case)), merge_order(rng, [len(x) for x in cl]))
                for i, (o, t_i) in enumerate(res):
                    if t_i is None or t_i[0] != 'completed' or ''.join(o) != ''.join(streams[i]):
                        out.add('concurrent-decode', enc, {'stream': i, 'of': len(streams), 'terminal': repr(t_i),
                                                           'got': repr(''.join(o))[:200], 'expected': repr(''.join(streams[i]))[:200]})
                        break
        out.steps = runs
        out.ticks = n
        out.digest = repr((blob.hex()[:200], [v.to_json() for v in out.violations], runs))
        out.shape = (repr(strings), enc, tuple(cuts), bool(case.get('sweep')))
        multi = bool(inside)
        out.nontrivial = multi and (any(0 < c < n for c in cuts) or len(scheds) > 1)
        if any(c in inside for c in cuts) or (len(scheds) > 1 and multi):
            p['cut_inside_multibyte'] += 1
        if any(ord(c) > 0xFFFF for c in text):
            p['astral'] += 1
        if '\ufeff' in text:
            p['zwnbsp_in_text'] += 1
        if text[:2] in ('\u00ef\u00bb', '\u00ff\u00fe', '\u00fe\u00ff') or text[:1] in ('\ufeff', '\ufffe'):
            p['signature_lookalike_prefix'] += 1
        if '\u0301' in text:
            p['combining'] += 1
        if any(s == '' for s in strings):
            p['empty_string'] += 1
        if family(enc) in ('utf-16', 'utf-32', 'utf-8-sig'):
            p['bom_encoding'] += 1
        if enc not in ('utf-8', 'utf-16', 'utf-32', 'latin-1', 'utf-8-sig', 'utf-16-le', 'utf-16-be'):
            p['encoding_alias'] += 1
        p['enc:' + {'iso8859-1': 'latin-1'}.get(family(enc), family(enc)).replace('-sig', '').replace('-le', '').replace('-be', '')] += 1
        return out

    def extra_candidates(self, case):
        out = self.execute(case)
        for v in out.violations:
            if 'cuts' in v.detail:
                yield dict(case, cuts=list(v.detail['cuts']), sweep=False)


CHECK = C17()
