"""C14 - memory state store behaves as an isolated per-index typed map.

Several simulated clients (as operators would) own states created through
StateTopology and issue store operations through one StoreManager in the
order chosen by the seeded scheduler; a dictionary model is checked after
every operation, and after *every* operation all live slots of all states are
read back (cross-index isolation is an invariant, not a spot check)."""
import math

import rxsci as rs
from rxsci.state.state_topology import StateTopology
from rxsci.state.store import StoreManager
from rxsci.state.memory_store import MemoryStore

from rxsim.runner import Check, Outcome
from rxsim.core import resolve_schedule, canon

NOTSET = rs.state.markers.STATE_NOTSET
import numpy as _np


class Money(float):
    """a float subclass carrying an attribute: as data type it is 'any other class', i.e. kept as an object"""
    def __new__(cls, v, cur='USD'):
        o = float.__new__(cls, v)
        o.cur = cur
        return o


# 'npfloat' and 'fsub': data types that are subclasses of float (scan declares type(seed)); they are object states
TYPES = ('int', 'uint', 'float', 'bool', 'obj', 'mapper', 'npfloat', 'fsub')
PYTYPE = {'int': int, 'uint': 'uint', 'float': float, 'bool': bool, 'obj': 'obj', 'npfloat': _np.float64, 'fsub': Money}


def wrap(t, v):
    """the value as it is handed to the store (the case document holds plain JSON values)"""
    if t == 'npfloat':
        return _np.float64(v)
    if t == 'fsub':
        return Money(v, 'USD' if v >= 0 else 'EUR')
    return v

DEFAULTS = {
    'int': [None, None, 0, -1, 5],
    'uint': [None, None, 0, 3],
    'float': [None, None, 0.0, 1.5],
    'bool': [None, None, False, True],
    'obj': [None, None, 'dflt', [1, 2], 0, '$callable:dict', '$callable:fn'],     # lists in the case stand for tuples (immutable default); $callable: the default is a callable object (a class, a function) - stored as it is, never called
    'npfloat': [None],
    'fsub': [None],
}
OBJ_VALUES = [None, 0, 1, '', 'x', [3], {'k': 1}, [], 2.5, True, -7]


def mk_value(rng, t):
    if t == 'int':
        return rng.choice([0, 1, -1, 2 ** 63 - 1, -2 ** 63, rng.randint(-10 ** 12, 10 ** 12), rng.randint(-5, 5)])
    if t == 'uint':
        return rng.choice([0, 1, 2 ** 64 - 1, 2 ** 63, rng.randint(0, 10 ** 15), rng.randint(0, 9)])
    if t in ('float', 'npfloat', 'fsub'):
        return rng.choice([0.0, -0.0, 1.5, -2.25, 1e300, 5e-324, float(rng.randint(-9, 9)), rng.random() * 1e6])
    if t == 'bool':
        return rng.random() < 0.5
    return rng.choice(OBJ_VALUES)


def _a_default_function():
    raise AssertionError('a default value was called')


def as_default(t, d):
    if t == 'obj' and isinstance(d, list):
        return tuple(d)
    if d == '$callable:dict':
        return dict
    if d == '$callable:fn':
        return _a_default_function
    return d


def same(t, got, exp):
    """read-back equality 'with the declared type'."""
    if exp is NOTSET or got is NOTSET:
        return got is exp
    if callable(exp):
        return got is exp
    if t in ('int', 'uint'):
        return type(got) is int and got == exp
    if t == 'float':
        return type(got) is float and (got == exp and math.copysign(1, got) == math.copysign(1, exp))
    if t == 'bool':
        return type(got) is bool and got == exp
    if t == 'npfloat':
        return type(got) is _np.float64 and float(got).hex() == float(exp).hex()
    if t == 'fsub':
        return type(got) is Money and float(got).hex() == float(exp).hex() and got.cur == wrap(t, exp).cur
    return canon(got) == canon(exp)


class Model(object):
    def __init__(self, states):
        self.states = states
        self.live = [dict() for _ in states]     # index -> value | NOTSET | dict (mapper)

    def precondition(self, op):
        s = op['s']
        t = self.states[s]['type']
        live = self.live[s]
        k = op['op']
        i = op.get('i')
        if k == 'add':
            return i not in live
        if k in ('set', 'get', 'del'):
            if t == 'mapper' and k in ('set', 'get'):
                return False
            return i in live
        if k == 'iter':
            return t != 'mapper'
        if k in ('add_map', 'get_map', 'iter_map'):
            if t != 'mapper' or i not in live:
                return False
            if k == 'add_map':
                return op['mk'] not in [m for m, _ in live[i]]
            return True
        return False


def mk_key(mk):
    """map keys: equal but never identical objects (rebuilt on every call)."""
    if isinstance(mk, list):
        return tuple(mk)
    if isinstance(mk, int) and mk >= 1000:
        return 10 ** 20 + mk
    return mk


class C14(Check):
    id = 'C14'
    title = 'memory store = isolated per-index typed map'
    rule = ('case = 1..5 simulated clients, each owning one state (data types int, \'uint\', float, bool, obj, mapper; with and without an immutable '
            'default) created through StateTopology, each with a script of add_key / set_state / get_state / del_key / iterate_state / add_map / '
            'get_map / iterate_map on sparse, descending and repeated indices (only sequences the text speaks about: operations on live slots, '
            'values of the declared type and range, re-add after delete); the seeded scheduler interleaves the scripts into one history against '
            'one StoreManager(MemoryStore); dictionary model per state checked operation by operation, and after every operation every live slot '
            'of every state is read back. non-trivial: >= 8 operations, >= 1 re-add after delete or growth by a sparse index; distinct = distinct histories')
    real = ['rxsci.state.MemoryStore, Store, StoreManager, StateTopology, markers (current working tree)']
    stubs = ['the clients (operators) issuing the store calls', 'the scheduler interleaving them']
    assumptions = ['reads of deleted or never added slots, and writes of out-of-type values, are outside the statement and not generated',
                   'iterate_state is a read of all slots: it must enumerate exactly the live indices (an operation on one index must not make another index appear)',
                   'del_map is not part of the statement']
    probe_names = ('readd_after_delete', 'sparse_growth', 'descending_indices', 'type:int', 'type:uint', 'type:float', 'type:bool', 'type:obj',
                   'type:mapper', 'type:npfloat', 'type:fsub', 'with_default', 'clients>=3', 'map_parent_deleted_then_new_index', 'extreme_values')
    quick_cap = 400000

    def gen(self, rng, tier):
        nclients = rng.choice([1, 2, 2, 3, 4, 5])
        states = []
        for c in range(nclients):
            t = rng.choice(TYPES)
            d = rng.choice(DEFAULTS[t]) if t != 'mapper' else None
            states.append({'type': t, 'default': d})
        maxops = rng.choice([6, 12, 25, 60]) if tier == 'quick' else rng.choice([12, 40, 100, 250])
        model = Model(states)
        scripts = {}
        # scripts are generated against the model so that every operation is one the text speaks about;
        # the interleaving does not matter for the preconditions because each client owns its state
        for c in range(nclients):
            t = states[c]['type']
            live = model.live[c]
            n = rng.randint(1, max(1, maxops // nclients * 2))
            universe = rng.choice([[0, 1, 2, 3], [0, 1, 2, 3, 4, 5, 6, 7], [0, 5, 17, 40, 41, 120], list(range(0, 64, 7))])
            if rng.random() < 0.3:
                universe = list(reversed(universe))
            script = []
            descending = rng.random() < 0.3
            for _ in range(n):
                choices = []
                free = [i for i in universe if i not in live]
                if free:
                    choices += ['add'] * 3
                if live:
                    if t == 'mapper':
                        choices += ['add_map'] * 4 + ['get_map'] * 3 + ['iter_map'] * 2 + ['del']
                    else:
                        choices += ['set'] * 4 + ['get'] * 3 + ['del'] * 2 + ['iter']
                if not choices:
                    break
                k = rng.choice(choices)
                op = {'s': c, 'op': k}
                if k == 'add':
                    op['i'] = (max(free) if descending else rng.choice(free))
                    live[op['i']] = [] if t == 'mapper' else 0
                elif k == 'iter':
                    pass
                else:
                    op['i'] = rng.choice(sorted(live))
                    if k == 'set':
                        op['v'] = mk_value(rng, t)
                    elif k == 'del':
                        del live[op['i']]
                    elif k in ('add_map', 'get_map'):
                        pool = [0, 1, 2, 'a', 'b', [1, 'x'], [2, 'y'], 1000, 1001, 0.5, -1, -2, '', 2305843009213693951, [0, -1], [0, -2]]   # incl. different keys with equal hashes
                        have = [m for m, _ in live[op['i']]]
                        if k == 'add_map':
                            cand = [m for m in pool if m not in have]
                            if not cand:
                                continue
                            op['mk'] = rng.choice(cand)
                            live[op['i']].append((op['mk'], None))
                        else:
                            op['mk'] = rng.choice(pool)
                script.append((rng.choice([0, 0, 1, 2, 5]), op))
            scripts[c] = script
        events = resolve_schedule(rng, scripts)
        return {'states': states, 'ops': [e['v'] for e in events]}

    def valid(self, case):
        try:
            m = Model(case['states'])
            for st in case['states']:
                if st['type'] not in TYPES:
                    return False
            for op in case['ops']:
                if not (0 <= op['s'] < len(case['states'])):
                    return False
                if not m.precondition(op):
                    return False
                self.apply_model(m, op, None)
            return True
        except (KeyError, TypeError, IndexError):
            return False

    def apply_model(self, m, op, ret):
        s = op['s']
        st = m.states[s]
        live = m.live[s]
        k = op['op']
        if k == 'add':
            if st['type'] == 'mapper':
                live[op['i']] = []
            else:
                d = as_default(st['type'], st.get('default'))
                live[op['i']] = d if d is not None else NOTSET
        elif k == 'set':
            live[op['i']] = op['v'] if not (st['type'] == 'obj' and isinstance(op['v'], list) and False) else op['v']
        elif k == 'del':
            del live[op['i']]
        elif k == 'add_map':
            live[op['i']].append((op['mk'], ret))

    def execute(self, case):
        out = Outcome()
        states = case['states']
        topo = StateTopology()
        ids = []
        for n, st in enumerate(states):
            if st['type'] == 'mapper':
                ids.append(topo.create_mapper('client%d' % n))
            else:
                ids.append(topo.create_state('client%d' % n, PYTYPE[st['type']], as_default(st['type'], st.get('default'))))
        sm = StoreManager(store_factory=MemoryStore)
        sm.set_topology(topo)
        m = Model(states)
        trace = []
        p = out.probes
        deleted = [set() for _ in states]
        freed_parent = False
        maxidx = [-1] * len(states)

        def key_of(i):
            return (i, (0,))

        def fail(kind, t, detail):
            out.add(kind, t, detail)

        for n, op in enumerate(case['ops']):
            s = op['s']
            t = states[s]['type']
            k = op['op']
            i = op.get('i')
            ret = None
            try:
                if k == 'add':
                    sm.add_key(ids[s], key_of(i))
                    if i in deleted[s]:
                        p['readd_after_delete'] += 1
                    if i > maxidx[s] + 1:
                        p['sparse_growth'] += 1
                    if i < maxidx[s]:
                        p['descending_indices'] += 1
                    maxidx[s] = max(maxidx[s], i)
                elif k == 'set':
                    v = op['v']
                    sm.set_state(ids[s], key_of(i), wrap(t, v))
                    if t in ('int', 'uint') and abs(v) >= 2 ** 62:
                        p['extreme_values'] += 1
                elif k == 'get':
                    ret = sm.get_state(ids[s], key_of(i))
                    if not same(t, ret, m.live[s][i]):
                        fail('read-mismatch', t, {'op_number': n, 'index': i, 'expected': repr(m.live[s][i]), 'got': repr(ret)})
                elif k == 'del':
                    sm.del_key(ids[s], key_of(i))
                    deleted[s].add(i)
                    if t == 'mapper':
                        freed_parent = True
                elif k == 'iter':
                    # iterate reads every slot: it must enumerate exactly the live (added, not deleted) indices,
                    # each once, flagged set/not-set as the model says, with the stored value when set
                    seen = {}
                    dup = False
                    for item in sm.iterate_state(ids[s]):
                        key_, val_, is_set = item
                        idx = key_[0] if isinstance(key_, tuple) else key_
                        dup = dup or idx in seen
                        seen[idx] = (val_, is_set)
                    exp_idx = sorted(m.live[s])
                    if dup or sorted(seen) != exp_idx:
                        fail('enumeration', t, {'op_number': n, 'live_indices': exp_idx, 'iterated': sorted(seen), 'duplicates': dup})
                    else:
                        for idx, (val_, is_set) in seen.items():
                            ev = m.live[s][idx]
                            if bool(is_set) != (ev is not NOTSET) or (ev is not NOTSET and not same(t, bool(val_) if t == 'bool' else val_, ev)):
                                fail('enumeration', t, {'op_number': n, 'index': idx, 'expected': repr(ev), 'got': repr((val_, is_set))})
                                break
                elif k == 'add_map':
                    ret = sm.add_map(ids[s], key_of(i), mk_key(op['mk']))
                    in_use = [idx for par in m.live[s].values() for _, idx in par]
                    if type(ret) is not int or ret in in_use:
                        fail('map-index-collision', t, {'op_number': n, 'returned': repr(ret), 'in_use': in_use})
                    if freed_parent:
                        p['map_parent_deleted_then_new_index'] += 1
                elif k == 'get_map':
                    ret = sm.get_map(ids[s], key_of(i), mk_key(op['mk']))
                    exp = dict((canon(mk_key(a)), b) for a, b in m.live[s][i]).get(canon(mk_key(op['mk'])), NOTSET)
                    if not (ret is exp or (exp is not NOTSET and ret == exp and type(ret) is int)):
                        fail('map-lookup', t, {'op_number': n, 'map_key': op['mk'], 'expected': repr(exp), 'got': repr(ret)})
                elif k == 'iter_map':
                    got = sorted(repr(canon(x)) for x in sm.iterate_map(ids[s], key_of(i)))
                    exp = sorted(repr(canon(mk_key(a))) for a, _ in m.live[s][i])
                    if got != exp:
                        fail('map-enumeration', t, {'op_number': n, 'expected': exp, 'got': got})
            except Exception as e:
                fail('raised', t, {'op_number': n, 'op': op, 'error': repr(e)})
                break
            self.apply_model(m, op, ret)
            trace.append((n, k, s, i, repr(canon(ret)) if ret is not NOTSET else 'NOTSET'))
            if out.violations:
                break
            # invariant: every live slot of every state reads what the model says
            bad = None
            for s2, st2 in enumerate(states):
                t2 = st2['type']
                for i2, v2 in m.live[s2].items():
                    try:
                        if t2 == 'mapper':
                            for mk, idx in v2:
                                g = sm.get_map(ids[s2], key_of(i2), mk_key(mk))
                                if g != idx or g is NOTSET:
                                    bad = (s2, t2, i2, 'map key %r' % (mk,), repr(idx), repr(g))
                        else:
                            g = sm.get_state(ids[s2], key_of(i2))
                            if not same(t2, g, v2):
                                bad = (s2, t2, i2, 'value', repr(v2), repr(g))
                    except Exception as e:
                        bad = (s2, t2, i2, 'raised', '', repr(e))
                    if bad:
                        break
                if bad:
                    break
            if bad:
                fail('cross-index', bad[1], {'after_op_number': n, 'after_op': op, 'state': bad[0], 'index': bad[2], 'what': bad[3],
                                             'expected': bad[4], 'got': bad[5]})
                break
        out.steps = len(case['ops'])
        out.ticks = len(case['ops'])
        out.digest = repr(trace) + repr([v.to_json() for v in out.violations])
        out.shape = (repr(states), repr(case['ops']))
        out.nontrivial = len(case['ops']) >= 8 and (p.get('readd_after_delete', 0) > 0 or p.get('sparse_growth', 0) > 0)
        for st in states:
            p['type:' + st['type']] += 1
            if st.get('default') is not None:
                p['with_default'] += 1
        if len(states) >= 3:
            p['clients>=3'] += 1
        # abstract store state: marker vectors of all states (coverage only; tolerant of the attribute disappearing)
        try:
            store = sm.get_store()
            out.states = (hash(tuple(bytes(getattr(x, 'state', b'')) for x in store.states)),)
        except Exception:
            pass
        return out

    def signature(self, case, v):
        return '%s|%s' % (v.kind, v.op)


CHECK = C14()
