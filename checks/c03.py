"""C03 - mux event protocol is well-formed at every operator boundary.

Invariant evaluated *inside* the run by a state machine attached to every
subscription of every MuxObservable (rxsim.core.ProxyObserver)."""
from rxsim.runner import Outcome
from rxsim.program import Gen, Flags, St, ops_in, depth_of
from rxsim.pipesim import run_raw, run_mux, run_multi_source
from rxsim.workload import gen_events, interleaving_degree
from .common import PipelineCheck, shape_of, find_nodes


class C03(PipelineCheck):
    id = 'C03'
    title = 'mux event protocol well-formed at every boundary'
    rule = ('case = random nested program over the full operator grammar (group_by/roll/split/time_split/tee_map around any operator) '
            'x seeded interleaving of 0..8 party scripts; the protocol state machine runs at every MuxObservable subscription. '
            'non-trivial: >= 4 key creations observed and >= 2 keys simultaneously live at some boundary; '
            'distinct = distinct (program, resolved schedule) pairs among the non-trivial ones')
    assumptions = ['about one case in eight injects user-function failures (fault plan of C13) so that OnErrorMux crosses boundaries too; after on_error nothing is demanded',
                   'the class-level patch of MuxObservable.__init__ sees every multiplexed boundary']
    probe_names = ('hand_built_keyed_source', 'two_chained_store_scopes', 'sources_sharing_one_store', 'cold_source_emitting_during_subscribe', 'with_item_errors', 'inside_tee', 'nested_window', 'empty_source', 'stride_gt_window', 'window_gt_stream',
                   'group_emptied_by_filter', 'labels>=12')

    def flags(self):
        return Flags(error_ops_ok=True)

    def gen(self, rng, tier):
        if rng.random() < 0.12:
            # item-level errors (fault plan of C13): an OnErrorMux must also be for a live key at every boundary it crosses
            from .c13 import CHECK as C13
            c = C13.gen(rng, tier)
            return {'program': c['program'], 'events': c['events'], 'end': 'complete', 'style': c['style'], 'faults': c['faults']}
        parties, maxev = self.sizes(rng, tier)
        if rng.random() < 0.08:
            # with_store(store, sources=[...]): two or three hot sources with their own pipelines share one store
            g2 = Gen(rng, weights={'group_by': 5, 'roll': 5, 'split': 4, 'time_split': 2, 'tee_map': 3, 'progress': 0}, max_nest=2,
                     small=True)
            progs = [g2.pipeline(St('rec', True), Flags(), rng.choice([1, 2]), rng.choice([1, 2, 3])) for _ in range(rng.choice([2, 2, 3]))]
            events, style = gen_events(rng, max(2, min(parties, 6)), min(maxev, 60), p_close=0.2)
            return {'program': progs[0], 'more_sources': progs[1:], 'events': events, 'end': 'complete', 'style': style}
        if rng.random() < 0.06:
            parties = 0
        g = Gen(rng, weights={'group_by': 6, 'roll': 6, 'split': 5, 'time_split': 5, 'tee_map': 6, 'progress': 0,
                              'map': 3, 'filter': 4},
                max_nest=3, small=(tier == 'quick'))
        fl = Flags()
        nest = rng.choice([1, 2, 2, 3, 3]) if tier == 'quick' else rng.choice([2, 3, 3, 4])
        grouped = rng.random() < 0.6
        raw = bool(parties) and rng.random() < 0.08
        inner = g.pipeline(St('rec', not (grouped or raw)), fl, nest, rng.choice([1, 2, 2, 3, 4]))
        if grouped and not raw:
            program = [{'op': 'group_by', 'key': rng.choice(['rk', 'rk_big', 'rk_tup']), 'inner': inner}]
        else:
            program = inner
        ts = find_nodes(program, lambda n: n['op'] == 'time_split')
        to = (ts[0].get('active'), ts[0].get('inactive')) if ts else (None, None)
        events, style = gen_events(rng, parties, maxev, style=None, timeouts=to, p_close=0.2 if ts else 0.0)
        case = {'program': program, 'events': events, 'end': 'complete', 'style': style,
                'driver': 'cold' if rng.random() < 0.15 else 'hot'}
        if raw:
            # the pipeline directly on a hand-built, well-formed keyed stream (cast_as_mux_observable): slot indices are reused for
            # different key tuples over time
            ps = sorted(set(e['p'] for e in events))
            return {'program': inner, 'events': events, 'end': 'complete', 'style': style, 'raw': True,
                    'early': [q for q in ps if rng.random() < 0.6]}
        if len(program) >= 2 and rng.random() < 0.15:
            # the pipeline in two store scopes chained on one multiplexed stream
            case['two_stores'] = rng.randrange(1, len(program))
        return case

    def valid(self, case):
        if case.get('raw'):
            # every hand-built key has at least one item: the pipeline starts like the inside of a group_by
            from rxsim.program import valid as _v
            ev = case.get('events')
            ok = isinstance(ev, list) and all(isinstance(e, dict) and e['t'] >= 0 for e in ev) and case.get('end') == 'complete'
            return ok and _v(case['program'], St('rec', False), self.flags()) and isinstance(case.get('early') or [], list)
        if not PipelineCheck.valid(self, case):
            return False
        from rxsim.program import valid as _valid
        k = case.get('two_stores')
        if k is not None and not (isinstance(k, int) and 1 <= k < len(case['program'])):
            return False
        return all(_valid(p, St('rec', True), self.flags()) for p in case.get('more_sources') or ())

    def execute_multi(self, case):
        out = Outcome()
        programs = [case['program']] + list(case['more_sources'])
        ctx, finals, escaped = run_multi_source(programs, case['events'])
        for label, what, key, seq in ctx.breaches:
            out.add(what, label, {'key': key, 'source_event': seq, 'sources_sharing_one_store': len(programs)})
        if not ctx.aborted and not ctx.breaches and (escaped is not None or any(f.terminal and f.terminal[0] == 'error' for f in finals)):
            out.add('raised', 'with_store(sources=)', {'error': repr(escaped) if escaped is not None else
                                                       [f.terminal for f in finals if f.terminal and f.terminal[0] == 'error'][:1]})
        creates = sum(b.ncreate for b in ctx.bounds)
        out.nontrivial = creates >= 4 and not ctx.aborted
        out.shape = (shape_of(case), repr(case['more_sources']))
        out.steps = len(case['events']) + 1
        out.ticks = case['events'][-1]['t'] if case['events'] else 0
        out.digest = repr(ctx.breaches) + repr([f.terminal for f in finals]) + repr([(b.label, b.count) for b in ctx.bounds])
        out.probes['sources_sharing_one_store'] += 1
        out.probes['boundaries'] += len(ctx.bounds)
        return out

    def execute(self, case):
        if case.get('more_sources'):
            return self.execute_multi(case)
        out = Outcome()
        if case.get('raw'):
            ctx, final, escaped = run_raw(case['program'], case['events'], case.get('early') or ())
            out.probes['hand_built_keyed_source'] += 1
        else:
            ctx, final, escaped = run_mux(case['program'], case['events'], case['end'], monitor=True, notaps=True,
                                          fail=case.get('faults'), driver=case.get('driver', 'hot'),
                                          extra={'two_stores': case.get('two_stores')} if case.get('two_stores') else None)
        if case.get('two_stores'):
            out.probes['two_chained_store_scopes'] += 1
        for site, n in ctx.fired.items():
            out.faults['user_function_raised'] += n
        for label, what, key, seq in ctx.breaches:
            out.add(what, label, {'key': key, 'source_event': seq})
        creates = sum(b.ncreate for b in ctx.bounds)
        maxlive = max([b.maxlive for b in ctx.bounds] or [0])
        labels = set(b.label for b in ctx.bounds)
        out.nontrivial = creates >= 4 and maxlive >= 2
        out.shape = shape_of(case)
        out.steps = len(case['events']) + 1
        out.ticks = case['events'][-1]['t'] if case['events'] else 0
        out.digest = ctx.trace_digest() + repr(ctx.breaches) + repr(final.terminal)
        out.states = tuple(ctx.extra.get('states', ()))
        p = out.probes
        ops = ops_in(case['program'])
        p['boundaries'] += len(ctx.bounds)
        if ctx.aborted:
            p['aborted_work_budget'] += 1
            out.nontrivial = False
        if escaped is not None or (final.terminal and final.terminal[0] == 'error'):
            if not case.get('faults'):
                p['sut_error'] += 1
            out.nontrivial = False
        if ctx.fired:
            p['with_item_errors'] += 1
        if case.get('driver') == 'cold':
            p['cold_source_emitting_during_subscribe'] += 1
        if 'tee_map' in ops:
            p['inside_tee'] += 1
        if depth_of(case['program']) >= 3:
            p['nested_window'] += 1
        if not case['events']:
            p['empty_source'] += 1
        for n in find_nodes(case['program'], lambda n: n['op'] == 'roll'):
            if n['stride'] > n['window']:
                p['stride_gt_window'] += 1
            if n['window'] > len(case['events']):
                p['window_gt_stream'] += 1
        if find_nodes(case['program'], lambda n: n['op'] == 'filter' and n['fn'] == 'never'):
            p['group_emptied_by_filter'] += 1
        if len(labels) >= 12:
            p['labels>=12'] += 1
        for l in labels:
            p['label:' + l.split('.<locals>')[0]] += 1
        return out


CHECK = C03()
