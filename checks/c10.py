"""C10 - per-key sequence operators match their list semantics (multiplexed per
key under interleaving and slot reuse; plain observables where supported)."""
from rxsim.runner import Outcome
from rxsim.program import Gen, Flags, St, valid, ops_in
from rxsim.pipesim import run_plain
from rxsim.ref import local_check
from .modelcheck import ModelCheck, first_raiser
from .common import find_nodes, shape_of

SEQ = ('first', 'last', 'take', 'distinct', 'distinct_until_changed', 'lag', 'pad_start', 'pad_end', 'start_with', 'batch',
       'sort', 'to_deque')
PLAIN_SEQ = ('first', 'last', 'take', 'distinct_until_changed', 'batch', 'sort', 'to_deque')


class C10(ModelCheck):
    id = 'C10'
    title = 'per-key sequence operators match their list semantics'
    focus = SEQ
    kinds = ('values', 'raised', 'lifetimes')
    rule = ('case = (a) multiplexed program: sequence operators (first/last/take/distinct/distinct_until_changed/lag/pad_start/pad_end/start_with/'
            'batch with n in {0,1,2,..,>len}) behind maps producing None items, repeated values, emptied keys, under group_by (interleaved keys) and '
            'roll/split (reused slots) x seeded interleaving, and (b) the same item sequence on a plain observable for the operators that accept one '
            '(first/last/take/distinct_until_changed/batch/sort/to_deque); list models are compared per key lifetime at the taps around each '
            'operator. non-trivial: a sequence operator received >= 2 items; distinct = distinct (program, schedule)')
    assumptions = ['first/last on a plain observable are applied to non-empty sequences only (RxPY raises by design)',
                   'the simulated dimension is cross-key interference and slot reuse; the shape of one key\'s input is ordinary generation (DESIGN.md C10)']
    probe_names = ('none_items', 'len_multiple_of_n', 'n>len', 'n==0', 'reused_slot', 'plain_run', 'empty_key', 'op:sort', 'op:batch', 'op:lag',
                   'op:distinct', 'op:pad_end', 'op:pad_start', 'op:start_with', 'op:first', 'op:last', 'op:take', 'op:distinct_until_changed')
    weights = {'first': 5, 'last': 5, 'take': 6, 'distinct': 6, 'distinct_until_changed': 7, 'lag': 6, 'pad_start': 5, 'pad_end': 5,
               'start_with': 5, 'batch': 8, 'map': 6, 'filter': 3, 'progress': 0, 'tee_map': 0, 'group_by': 1, 'roll': 2, 'split': 2,
               'time_split': 0, 'scan': 1, 'to_list': 1}
    values = ('small', 'inc', 'runs', 'dups', 'dups')

    def gen_program(self, rng, tier):
        g = Gen(rng, weights=self.weights, max_nest=1, small=(tier == 'quick'))
        fl = Flags(deny=('time_split', 'tee_map', 'progress', 'group_by'))
        shape = rng.random()
        prefix = [{'op': 'map', 'fn': 'v_of'}]
        t = 'int'
        if rng.random() < 0.3:
            prefix.append({'op': 'map', 'fn': 'none_odd'})
            t = 'optint'
        elif rng.random() < 0.15:
            prefix = []
            t = 'rec'
        inner = prefix + g.pipeline(St(t, shape >= 0.9), fl, rng.choice([0, 0, 1]), rng.choice([1, 2, 2, 3]))
        if shape < 0.4:
            return [{'op': 'group_by', 'key': rng.choice(['rk', 'rk_big', 'rk_tup']), 'inner': inner}]
        if shape < 0.6:
            return [{'op': 'roll', 'window': rng.randint(1, 5), 'stride': rng.randint(1, 5), 'inner': inner}]
        if shape < 0.75:
            return [{'op': 'split', 'key': rng.choice(['rv_mod3', 'rn_div3']), 'inner': inner}]
        if shape < 0.9:
            return [{'op': 'group_by', 'key': 'rk', 'inner': [{'op': 'split', 'key': rng.choice(['rv_mod3', 'rn_div3']), 'inner': inner}]}]
        return inner

    def gen(self, rng, tier):
        case = ModelCheck.gen(self, rng, tier)
        # plain twin: a short dual-mode program ending in sequence operators, fed with one key's values
        g = Gen(rng, weights={'first': 4, 'last': 4, 'take': 6, 'distinct_until_changed': 6, 'batch': 8, 'sort': 6, 'to_deque': 4,
                              'map': 5, 'filter': 2, 'tee_map': 0, 'progress': 0, 'scan': 1, 'flat_map': 1}, max_nest=0)
        n = rng.choice([0, 1, 2, 3, 4, 6, 8, 9, 12])
        items = [rng.choice([0, 1, 1, 2, 3, 5, 8]) for _ in range(n)]
        fl = Flags(dual=True, plain_only_ok=True, no_mut_stream=True)
        prog = g.pipeline(St('int', n == 0), fl, 0, rng.choice([1, 2, 2, 3]))
        case['plain'] = {'program': prog, 'items': items}
        return case

    def valid(self, case):
        if not ModelCheck.valid(self, case):
            return False
        pl = case.get('plain')
        if pl is None:
            return True
        if not all(isinstance(x, int) for x in pl['items']):
            return False
        return valid(pl['program'], St('int', len(pl['items']) == 0), Flags(dual=True, plain_only_ok=True, no_mut_stream=True))

    def execute(self, case):
        out = ModelCheck.execute(self, case)
        pl = case.get('plain')
        if pl and pl['program']:
            ctx, final, escaped = run_plain(pl['program'], pl['items'])
            out.probes['plain_run'] += 1
            if not ctx.aborted:
                if escaped is not None or (final.terminal and final.terminal[0] == 'error'):
                    r = first_raiser(pl['program'], ctx)
                    op = r[1] if r else 'pipeline'
                    if op in self.focus or op == 'pipeline':
                        out.add('raised', op + '@plain', {'error': r[3] if r else repr(escaped), 'program': pl['program'], 'items': pl['items']})
                else:
                    for f in local_check(pl['program'], ctx, 'plain', only=set(SEQ)):
                        if f.kind in self.kinds:
                            out.add(f.kind, f.op + '@plain', f.detail)
                out.digest += ctx.trace_digest()
                if len(pl['items']) >= 2 and any(o in PLAIN_SEQ for o in ops_in(pl['program'])):
                    out.nontrivial = True
        out.shape = (out.shape, repr(pl))
        return out

    def probe(self, case, ctx, out):
        ModelCheck.probe(self, case, ctx, out)
        p = out.probes
        if find_nodes(case['program'], lambda x: x['op'] == 'map' and x['fn'] == 'none_odd'):
            p['none_items'] += 1
        if find_nodes(case['program'], lambda x: x['op'] in ('roll', 'split')):
            p['reused_slot'] += 1
        if find_nodes(case['program'], lambda x: x['op'] == 'filter'):
            p['empty_key'] += 1
        per = {}
        for e in case['events']:
            per[e['p']] = per.get(e['p'], 0) + 1
        for n in find_nodes(case['program'], lambda x: x['op'] in ('batch', 'take', 'lag', 'pad_start', 'pad_end')):
            k = n.get('n', n.get('size'))
            if k == 0:
                p['n==0'] += 1
            if per and k and any(v % k == 0 for v in per.values()) and n['op'] == 'batch':
                p['len_multiple_of_n'] += 1
            if per and k is not None and k > max(per.values()):
                p['n>len'] += 1
        pl = case.get('plain')
        if pl:
            for n in find_nodes(pl['program'], lambda x: x['op'] in SEQ):
                p['op:' + n['op']] += 1
                if n['op'] == 'batch' and len(pl['items']) % n['n'] == 0:
                    p['len_multiple_of_n'] += 1


CHECK = C10()
