"""C11 - streaming promptness: results are emitted with the item that determines them."""
from rxsim.program import DEFAULT_WEIGHTS
from .modelcheck import ModelCheck
from .common import find_nodes


class C11(ModelCheck):
    id = 'C11'
    title = 'streaming promptness'
    focus = tuple(DEFAULT_WEIGHTS)
    kinds = ('stamps', 'window-create', 'window-close', 'join-stamps', 'demux', 'demux-protocol')
    max_nest = 3
    weights = {'batch': 5, 'roll': 5, 'split': 4, 'time_split': 4, 'group_by': 4, 'tee_map': 4, 'scan': 6, 'last': 3, 'to_list': 3,
               'pad_end': 3, 'take': 3, 'first': 2, 'progress': 1}
    rule = ('case = random nested program (windows, groups, tees, batch, running and reduce aggregates, take/first) x seeded interleaving; every '
            'record at every tap is stamped with the number of the source event being processed (hot Subject driver: one push = one event, the '
            'terminal event has its own number); for every operator instance whose output *values* agree with its model, the stamps must agree '
            'too: per-item operators and running aggregates = stamp of the input item; reduce/last/to_list/pad_end padding = the key\'s completion '
            'event; batch(n) = the n-th item\'s event; window close = the w-th item (roll), first item of the next run (split), the expiring or '
            'closing item (time_split), the parent\'s completion (group_by, partial windows); multiplexed take/first do not end a key. '
            'non-trivial: >= 3 events and >= 2 operators; distinct = distinct (program, schedule)')
    assumptions = ['granularity is the source event ("while the source item that determines it is being processed")',
                   'an operator instance whose values disagree with the model is skipped here (that is another property\'s violation)']
    probe_names = ('clock_skew', 'op:batch', 'op:roll', 'op:split', 'op:time_split', 'op:group_by', 'op:tee_map', 'completion_triggered_after_take',
                   'interleaved>=3')

    def relevant(self, f):
        return f.kind in self.kinds

    def gen(self, rng, tier):
        case = ModelCheck.gen(self, rng, tier)
        if find_nodes(case['program'], lambda n: n['op'] == 'time_split') and rng.random() < 0.3:
            # fault: clock skew - some items carry a timestamp older than their predecessor's.  C07 specifies which
            # window an item belongs to for non-decreasing timestamps only, but *when* a result is emitted (C11) is
            # meaningful for any input: the expiry/closing arithmetic of the model does not need monotonic time
            from rxsim.workload import skew
            case['events'], n = skew(rng, case['events'])
            case['skew'] = True
            if rng.random() < 0.2:
                for ts in find_nodes(case['program'], lambda n: n['op'] == 'time_split'):
                    ts['dt'] = 'np_arr0'          # timestamps that are mutable numbers (0-d numpy arrays)
            elif rng.random() < 0.4:
                # timestamps from an unsigned counter (numpy.uint64): with out-of-order items a difference of timestamps would wrap around
                for ts in find_nodes(case['program'], lambda n: n['op'] == 'time_split'):
                    ts['dt'] = 'np_uint'
        return case

    def probe(self, case, ctx, out):
        ModelCheck.probe(self, case, ctx, out)
        from rxsim.program import size_of, completion_triggered
        out.nontrivial = len(case['events']) >= 3 and size_of(case['program']) >= 2
        if case.get('skew'):
            out.faults['clock_skew_backward_timestamps'] += sum(1 for a, b in zip(case['events'], case['events'][1:]) if b['t'] < a['t'])
            out.probes['clock_skew'] += 1

        def scan(nodes):
            seen_take = False
            for n in nodes:
                if seen_take and completion_triggered(n):
                    out.probes['completion_triggered_after_take'] += 1
                if n['op'] in ('take', 'first'):
                    seen_take = True
                if 'inner' in n:
                    scan(n['inner'])
                for b in n.get('branches', ()):
                    scan(b)
        scan(case['program'])


CHECK = C11()
