"""C04 - group_by partitions the stream by key, preserving order within each group."""
from rxsim.program import Gen, Flags, St
from .modelcheck import ModelCheck
from .c05 import KINDS
from .common import find_nodes


class C04(ModelCheck):
    id = 'C04'
    title = 'group_by partitions by key'
    focus = ('group_by',)
    kinds = KINDS
    rule = ('case = program with group_by(key_mapper) whose key values are equal-but-never-identical ints, big ints, floats, strings and tuples '
            '(items are rebuilt per event), at top level, nested in group_by / roll / split and three levels deep (group_by > roll or split > group_by), x seeded interleaving of up to 12 parties; '
            'the partition model (linear == search, first-appearance order) is checked between the tap in front of group_by and the head tap of its '
            'inner pipeline (one group per distinct key, exact subsequence, creation with the first item, open groups completed at the parent\'s '
            'completion in first-appearance order) and the demux from tail tap to output ("results are emitted as they are produced"). '
            'non-trivial: >= 2 groups and >= 3 events; distinct = distinct (program, schedule)')
    assumptions = ['NaN keys are not generated']
    probe_names = ('group_by>window>group_by', 'key:impure_round_robin', 'key:mixed_equal_types', 'long_stream', 'keys>=5', 'nested_in_window', 'nested_in_group_by', 'key:big', 'key:tuple', 'key:str', 'key:float')
    values = ('small', 'small', 'inc', 'runs', 'dups', 'wide')

    def gen_program(self, rng, tier):
        g = Gen(rng, weights={'group_by': 4, 'roll': 2, 'split': 2, 'time_split': 0, 'progress': 0, 'tee_map': 1}, max_nest=2,
                small=(tier == 'quick'))
        key = rng.choice(['rk', 'rk_big', 'rk_tup', 'rv_mod3', 'rv_div2big', 'rv_tup', 'rn_div3', 'rv_flt', 'rv_mixed', 'rv_zero', 'rv_nest', 'rv_np', 'rv_nanfresh_none', 'rv_hashcol', 'rv_strhash', 'rv_fset', 'rv_dt64ns', 'rr3'])
        inner = g.pipeline(St('rec'), Flags(deny=('time_split', 'progress')), rng.choice([0, 1, 1]), rng.choice([1, 2, 2, 3]))
        node = {'op': 'group_by', 'key': key, 'inner': inner}
        shape = rng.random()
        if shape < 0.4:
            return [node]
        if shape < 0.5:
            # three levels: several parents of the inner group_by alive at once, with sparse parent indices (overlapping windows) or
            # parents that end at different moments (segments)
            if rng.random() < 0.5:
                mid = {'op': 'roll', 'window': rng.randint(2, 5), 'stride': rng.randint(1, 4), 'inner': [node]}
            else:
                mid = {'op': 'split', 'key': rng.choice(['rv_mod3', 'rn_div3', 'rv_div2big']), 'inner': [node]}
            return [{'op': 'group_by', 'key': rng.choice(['rk', 'rk_big', 'rk_tup']), 'inner': [mid]}]
        if shape < 0.65:
            return [{'op': 'group_by', 'key': rng.choice(['rk', 'rv_mod3', 'rk_tup']), 'inner': [node]}]
        if shape < 0.85:
            return [{'op': 'roll', 'window': rng.randint(1, 6), 'stride': rng.randint(1, 6), 'inner': [node]}]
        return [{'op': 'split', 'key': rng.choice(['rv_mod3', 'rn_div3', 'rv_div2big']), 'inner': [node]}]

    def probe(self, case, ctx, out):
        ModelCheck.probe(self, case, ctx, out)
        p = out.probes
        gb = find_nodes(case['program'], lambda x: x['op'] == 'group_by')
        parties = len(set(e['p'] for e in case['events']))
        out.nontrivial = out.nontrivial and (parties >= 2 or any(n['key'].startswith('rv') or n['key'].startswith('rn') for n in gb))
        if parties >= 5:
            p['keys>=5'] += 1
        top = case['program'][0]['op']
        if top in ('roll', 'split'):
            p['nested_in_window'] += 1
        if top == 'group_by' and len(gb) >= 2:
            p['nested_in_group_by'] += 1
            if case['program'][0]['inner'] and case['program'][0]['inner'][0]['op'] in ('roll', 'split'):
                p['group_by>window>group_by'] += 1
        for n in gb:
            k = n['key']
            if 'big' in k:
                p['key:big'] += 1
            if 'tup' in k:
                p['key:tuple'] += 1
            if k == 'rn_div3':
                p['key:str'] += 1
            if k == 'rv_flt':
                p['key:float'] += 1
            if k == 'rr3':
                p['key:impure_round_robin'] += 1
            if k in ('rv_mixed', 'rv_zero'):
                p['key:mixed_equal_types'] += 1
        if len(case['events']) >= 250:
            p['long_stream'] += 1


CHECK = C04()
