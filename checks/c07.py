"""C07 - time_split sessions respect active/inactive timeouts and closing items."""
from rxsim.program import Gen, Flags, St
from .modelcheck import ModelCheck
from .c05 import KINDS
from .common import find_nodes


class C07(ModelCheck):
    id = 'C07'
    title = 'time_split sessions'
    focus = ('time_split',)
    kinds = KINDS
    rule = ('case = program with time_split (active/inactive present or None, closing_mapper present or None, include_closing_item both ways, '
            'integer ticks, datetime/timedelta or numpy timestamps; time-outs incl. zero; closing_mapper also as a callable object with a false truth value) at top level or under group_by, x party scripts whose delays are drawn from '
            '{0, 1, timeout-1, timeout, timeout+1, active-inactive, ...} and resolved by the seeded scheduler on the virtual clock that stamps the '
            'items; the session model (expiry test with >= first, otherwise closing item) is compared on the non-empty windows per key: item '
            'lists, and the close event of each. non-trivial: >= 3 events and >= 2 windows; distinct = distinct (program, schedule)')
    assumptions = ['timestamps are non-decreasing per key (they are read from the virtual clock)',
                   'empty windows (opened eagerly after a closing item) are implementation detail and ignored on both sides']
    probe_names = ('closing_mapper_is_falsy_callable', 'zero_timeout', 'include_flag_not_bool', 'numpy_timestamps', 'datetime_gap>=1day', 'gap==inactive', 'gap==active', 'equal_timestamps', 'consecutive_closing', 'closing_last',
                   'expiring_and_closing', 'datetime', 'under_group_by', 'both_none')

    def gen_program(self, rng, tier):
        g = Gen(rng, weights={'time_split': 0, 'progress': 0, 'tee_map': 1, 'roll': 1, 'split': 1, 'group_by': 1}, max_nest=1,
                small=(tier == 'quick'))
        closing = rng.random() < 0.55
        node = {'op': 'time_split',
                'active': rng.choice([None, None, 3, 5, 8, 0]),
                'inactive': rng.choice([None, None, 1, 2, 3, 0]),
                'closing': closing, 'include': rng.choice([True, True, False, False, 'one', 'zero', 'np_true']) if closing else rng.random() < 0.5,
                'dt': rng.choice([False, False, False, 'seconds', 'hours', 'hours', 'days', 'days', 'np_int', 'np_uint', 'np_arr0', 'np_float', 'np_dt64'])}
        if closing and rng.random() < 0.15:
            node['closing'] = 'falsy_callable'      # the mapper is a callable object whose truth value is False
        inner = g.pipeline(St('rec', closing or node['active'] == 0 or node['inactive'] == 0), Flags(deny=('time_split', 'progress')), rng.choice([0, 0, 1]), rng.choice([1, 1, 2]))
        node['inner'] = inner
        if rng.random() < 0.55:
            return [{'op': 'group_by', 'key': rng.choice(['rk', 'rk_big', 'rk_tup']), 'inner': [node]}]
        return [node]

    def probe(self, case, ctx, out):
        ModelCheck.probe(self, case, ctx, out)
        p = out.probes
        ts = find_nodes(case['program'], lambda x: x['op'] == 'time_split')[0]
        A, I = ts.get('active'), ts.get('inactive')
        grouped = case['program'][0]['op'] == 'group_by'
        if grouped:
            p['under_group_by'] += 1
        if ts.get('dt'):
            p['datetime'] += 1
        if ts.get('include') not in (True, False):
            p['include_flag_not_bool'] += 1
        if str(ts.get('dt')).startswith('np_'):
            p['numpy_timestamps'] += 1
        if ts.get('dt') == 'days' or (ts.get('dt') == 'hours' and any(b['t'] - a['t'] >= 24 for a, b in zip(case['events'], case['events'][1:]))):
            p['datetime_gap>=1day'] += 1
        if A is None and I is None:
            p['both_none'] += 1
        if A == 0 or I == 0:
            p['zero_timeout'] += 1
        if ts.get('closing') == 'falsy_callable':
            p['closing_mapper_is_falsy_callable'] += 1
        seqs = {}
        for e in case['events']:
            seqs.setdefault(e['p'] if grouped else 0, []).append(e)
        nwin = 0
        from rxsim.pipesim import lifetimes
        for k, evs in seqs.items():
            for a, b in zip(evs, evs[1:]):
                gap = b['t'] - a['t']
                if I is not None and gap == I:
                    p['gap==inactive'] += 1
                if A is not None and gap == A:
                    p['gap==active'] += 1
                if gap == 0:
                    p['equal_timestamps'] += 1
                if ts.get('closing') and a['c'] and b['c']:
                    p['consecutive_closing'] += 1
                if ts.get('closing') and b['c'] and ((I is not None and gap >= I) or (A is not None and gap >= A)):
                    p['expiring_and_closing'] += 1
            if evs and ts.get('closing') and evs[-1]['c']:
                p['closing_last'] += 1
        from rxsim.program import walk
        for node, path, in_tap, out_tap, i in walk(case['program']):
            if node['op'] == 'time_split':
                subs, _ = lifetimes(ctx.taps.get('%s/%d:in/0' % (path, i), []))
                nwin = len([s for s in subs if s.items])
        out.nontrivial = out.nontrivial and nwin >= 2


CHECK = C07()
