"""Development aid: every model on every operator (not a registered check)."""
from rxsim.program import DEFAULT_WEIGHTS
from .modelcheck import ModelCheck


class CXX(ModelCheck):
    id = 'CXX'
    focus = tuple(DEFAULT_WEIGHTS)
    kinds = ('values', 'stamps', 'lifetimes', 'window-items', 'window-create', 'window-close', 'window-close-order',
             'window-protocol', 'demux', 'demux-protocol', 'join-values', 'join-stamps', 'join-protocol', 'raised-any')
    rule = 'dev'
    max_nest = 3


CHECK = CXX()
