"""C05 - roll produces exactly the count-based sliding windows, in order."""
from rxsim.program import Gen, Flags, St
from .modelcheck import ModelCheck
from .common import find_nodes

KINDS = ('window-items', 'window-create', 'window-close', 'window-close-order', 'window-protocol', 'demux', 'demux-protocol', 'raised')


class C05(ModelCheck):
    id = 'C05'
    title = 'roll: count-based sliding windows, in order'
    focus = ('roll',)
    kinds = KINDS
    weights = {'roll': 14, 'group_by': 2, 'split': 2, 'time_split': 0, 'tee_map': 1, 'progress': 0}
    rule = ('case = program containing roll(window, stride) at top level / under group_by / nested in roll or split, all (window, stride) relations, '
            'x seeded interleaving of party scripts (length 0..60+); the window model (item j*s opens window j = items [j*s, j*s+w)) is checked '
            'between the tap in front of roll and the tap at the head of its inner pipeline: items, creation event, close event, close order; '
            'and the demux from the tail tap to the output; window and stride also as numpy integers; thorough tier: an ultra-long single key (70 000-262 147 items) and an ultra-wide stream (70 000 / 270 000 groups under an overlapping roll: slot indices beyond 2**16 and 2**20), compared on the final output. non-trivial: a roll whose parent lifetime saw >= 3 items; distinct = distinct (program, schedule)')
    assumptions = ['interleaving of the *items* of overlapping windows inside one source event is not constrained (text is silent)']
    probe_names = ('window>=257_filled', 'ring_wrapped>=2', 'partial>=2_at_completion', 'stride>window', 'len<window', 'len0', 'nested_roll', 'under_group_by')

    def gen(self, rng, tier):
        if tier != 'quick' and rng.random() < 0.002:
            # ultra-long single key (counters far beyond 16 bits); generated inside execute, compared on the final output only
            return {'ultra': {'n': rng.choice([70000, 131073, 140000, 196609, 262147, 1048583 if rng.random() < 0.3 else 70001]), 'window': rng.choice([2, 3, 4, 5]),
                              'stride': rng.choice([1, 2, 3])}, 'program': [], 'events': [], 'end': 'complete'}
        if tier != 'quick' and rng.random() < 0.0003:
            # ultra-dense: more than 1024 windows of one key open at the same time
            w, s = rng.choice([(1030, 1), (2100, 2), (1100, 1)])
            return {'ultra': {'n': w + rng.choice([0, 7, 300]), 'window': w, 'stride': s}, 'program': [], 'events': [], 'end': 'complete'}
        if tier != 'quick' and rng.random() < 0.0002:
            # ultra-wide: hundreds of thousands of groups, so that window slot indices (group index x windows per group) pass 2**16 and 2**20
            return {'ultra': {'groups': rng.choice([70000, 270000]), 'window': rng.choice([5, 6]), 'stride': 1, 'n': 0},
                    'program': [], 'events': [], 'end': 'complete'}
        return ModelCheck.gen(self, rng, tier)

    def execute_wide(self, u):
        import operator
        import rx
        import rxsci as rs
        from rxsim.runner import Outcome
        out = Outcome()
        G, w, s = u['groups'], u['window'], u['stride']
        items = [(g, 0) for g in range(G)]
        tail = [G - 1 - k for k in range(4)] + [G // 2, 0]
        for rep_ in range(1, 4):
            items += [(g, rep_) for g in tail]
        got = {}
        errs = []

        def take(win):
            if isinstance(win, list) and win:
                got.setdefault(win[0][0], []).append([v for _, v in win])
            else:
                errs.append(repr(win)[:80])
        rx.from_(items).pipe(rs.state.with_memory_store([rs.ops.group_by(operator.itemgetter(0), [rs.data.roll(w, s, [rs.data.to_list()])])])).subscribe(
            on_next=take, on_error=lambda e: errs.append(repr(e)[:200]))
        bad = None
        for g in list(range(0, G, 997)) + tail:
            vals = list(range(4)) if g in tail else [0]
            exp = [vals[a:a + w] for a in range(0, len(vals), s)]
            if got.get(g) != exp:
                bad = (g, exp, got.get(g))
                break
        if errs or bad or len(got) != G:
            out.add('window-items', 'roll', {'groups': G, 'window': w, 'stride': s, 'groups_with_output': len(got), 'foreign_outputs': errs[:3],
                                             'first_bad_group': bad})
        out.steps = len(items)
        out.ticks = len(items)
        out.nontrivial = True
        out.shape = ('ultra-wide', G, w, s)
        out.digest = repr((G, w, s, len(got), errs[:3], bad))
        out.probes['ultra_wide_groups>=70000'] += 1
        return out

    def valid(self, case):
        u = case.get('ultra')
        if u is not None and u.get('groups') is not None:
            return isinstance(u['groups'], int) and 1 <= u['groups'] <= 300000 and 1 <= u.get('window', 0) <= 8 and u.get('stride', 0) >= 1
        if u is not None:
            return (isinstance(u.get('n'), int) and 0 <= u['n'] <= 1100000 and u.get('window', 0) >= 1 and u.get('stride', 0) >= 1 and
                    (u['window'] <= 64 or (u['window'] <= 2200 and u['n'] <= 3000)))
        return ModelCheck.valid(self, case)

    def execute(self, case):
        u = case.get('ultra')
        if u is None:
            return ModelCheck.execute(self, case)
        if u.get('groups') is not None:
            return self.execute_wide(u)
        import rx
        import rxsci as rs
        from rxsim.runner import Outcome
        out = Outcome()
        n, w, s = u['n'], u['window'], u['stride']
        got = []
        rx.from_(range(n)).pipe(rs.state.with_memory_store([rs.data.roll(w, s, [rs.data.to_list()])])).subscribe(
            on_next=got.append, on_error=lambda e: got.append(('error', repr(e))))
        exp = [list(range(a, min(a + w, n))) for a in range(0, n, s)]
        if got != exp:
            k = next((i for i, (a, b) in enumerate(zip(got, exp)) if a != b), min(len(got), len(exp)))
            out.add('window-close-order' if sorted(map(repr, got)) == sorted(map(repr, exp)) else 'window-items', 'roll',
                    {'n': n, 'window': w, 'stride': s, 'first_difference_at_output': k, 'got': got[k:k + 4], 'expected': exp[k:k + 4]})
        out.steps = n
        out.ticks = n
        out.nontrivial = True
        out.shape = ('ultra', n, w, s)
        out.digest = repr((n, w, s, len(got), got[-3:]))
        out.probes['ultra_long_key>=70000' if n >= 70000 else 'open_windows_of_one_key>1024'] += 1
        return out

    def gen_program(self, rng, tier):
        g = Gen(rng, weights=self.weights, max_nest=2, small=(tier == 'quick'))
        from rxsim import program
        hi = 8 if tier == 'quick' else 16
        if program.SCALE[0]:
            w = rng.choice([256, 257, 300])
            s = rng.choice([64, 100, 257, 300, 301, w, w + 1])
        else:
            w = rng.randint(1, hi)
            s = rng.choice([1, 1, 2, rng.randint(1, hi), w, w + 1, max(1, w - 1)])
        inner = g.pipeline(St('rec'), Flags(deny=('time_split', 'progress')), rng.choice([0, 1, 1]), rng.choice([1, 1, 2]))
        node = {'op': 'roll', 'window': w, 'stride': s, 'inner': inner}
        shape = rng.random()
        if shape < 0.35:
            return [node]
        if shape < 0.7:
            return [{'op': 'group_by', 'key': rng.choice(['rk', 'rk_big', 'rk_tup']), 'inner': [node]}]
        if program.SCALE[0]:
            return [node]
        if shape < 0.85:
            return [{'op': 'roll', 'window': rng.randint(1, 5), 'stride': rng.randint(1, 5), 'inner': [node]}]
        return [{'op': 'split', 'key': rng.choice(['rv_mod3', 'rn_div3', 'rv_div2big']), 'inner': [node]}]

    def probe(self, case, ctx, out):
        ModelCheck.probe(self, case, ctx, out)
        p = out.probes
        n = len(case['events'])
        rolls = find_nodes(case['program'], lambda x: x['op'] == 'roll')
        for r in rolls:
            w, s = r['window'], r['stride']
            dens = -(-w // s)
            per_key = {}
            for e in case['events']:
                per_key[e['p']] = per_key.get(e['p'], 0) + 1
            top = case['program'][0]['op'] == 'roll'
            longest = n if top else max(per_key.values() or [0])
            if longest >= 2 * dens * s:
                p['ring_wrapped>=2'] += 1
            if w > s and longest >= 1 and (w - 1) // s >= 2 and case['end'] == 'complete':
                p['partial>=2_at_completion'] += 1
            if s > w:
                p['stride>window'] += 1
            if w >= 257 and longest >= w:
                p['window>=257_filled'] += 1
            if 0 < longest < w:
                p['len<window'] += 1
        if n == 0:
            p['len0'] += 1
        if len(rolls) >= 2:
            p['nested_roll'] += 1
        if case['program'][0]['op'] == 'group_by':
            p['under_group_by'] += 1


CHECK = C05()
