"""C13 - item-level errors on multiplexed streams are isolated and routable."""
import copy

from rxsim.runner import Outcome
from rxsim.program import Gen, Flags, St, valid, check_pipeline, ops_in
from rxsim.pipesim import run_mux, lifetimes
from rxsim.ref import model, decanon, END
from rxsim.core import canon
from rxsim.workload import gen_events, interleaving_degree, renumber
from rxsim import funcs as F
from .common import PipelineCheck, shape_of, find_nodes

HANDLERS = ('ignore', 'error_map', 'router', 'none')
SITE = 'S'


def locate(program):
    """(level nodes, index of the failing operator, tap path of that level)."""
    nodes, path = program, 'P'
    while True:
        for i, n in enumerate(nodes):
            if n.get('site') == SITE:
                return nodes, i, path
        last = None
        for i, n in enumerate(nodes):
            if 'inner' in n:
                last = (i, n)
        if last is None:
            return None, None, None
        path = '%s/%d:in' % (path, last[0])
        nodes = last[1]['inner']


class C13(PipelineCheck):
    id = 'C13'
    title = 'item-level errors are isolated and routable'
    rule = ('case = [wrapper (none / group_by / roll / split)] around [record-preserving prefix, OP in {map, starmap, filter, scan} whose user '
            'function consults a fault plan, HANDLER in {ignore, error.map, router, none}, stateful suffix] x K interleaved party scripts x fault '
            'plan (which (party, ordinal) calls raise: none, first, last, consecutive runs, all, random subsets). Oracles: (i) at the tap behind OP '
            'exactly one OnErrorMux per failing call, for that key, in that source event, in position, all other records as the operator\'s list '
            'model gives for the non-failing items (scan state untouched); (ii) ignore/router: every record behind the handler and at the final '
            'subscriber equals the same pipeline, same schedule, with `filter(not failing)` inserted in front of OP; router: the dead-letter '
            'observer got the exceptions in order of occurrence and completed in the stream\'s completion event; error.map: mapped value in place; '
            'none: on_error with the first failing call\'s exception, outputs before it = prefix of the fault-free run. '
            'non-trivial: >= 1 fault fired and >= 2 keys or >= 4 events; distinct = distinct (program, schedule, plan)')
    assumptions = ['the handler sits directly behind the failing operator (what the statement specifies)',
                   'with handler "none" the failing operator is either the last one of its pipeline, so that the mux error reaches the '
                   'demultiplexer directly, or is followed by operators that hand a mux error on (no take/first, which end a key early)']
    probe_names = ('same_exception_object_raised_again', 'dead_letter_subscribed_after_data', 'unhandled_error_through_operators', 'exception_families', 'falsy_exception_raised', 'fault:first', 'fault:last', 'fault:consecutive', 'fault:all_of_a_key', 'handler:ignore', 'handler:error_map',
                   'handler:router', 'handler:none', 'op:map', 'op:starmap', 'op:filter', 'op:scan', 'stateful_downstream', 'keys>=3',
                   'wrapped_in_window')

    def flags(self):
        return Flags(error_ops_ok=True)

    def valid(self, case):
        if not PipelineCheck.valid(self, case):
            return False
        nodes, i, path = locate(case['program'])
        if nodes is None:
            return False
        h = case['handler']
        if h == 'none':
            if i != len(nodes) - 1 and not case.get('through'):
                return False
            if i + 1 < len(nodes) and nodes[i + 1]['op'] in ('ignore', 'error_map', 'router'):
                return False
        else:
            if i + 1 >= len(nodes) or nodes[i + 1]['op'] != h:
                return False
        if len(find_nodes(case['program'], lambda n: n.get('site') == SITE)) != 1:
            return False
        plan = case['faults'].get(SITE, [])
        return all(isinstance(x, list) and len(x) == 2 for x in plan)

    def gen(self, rng, tier):
        parties, maxev = self.sizes(rng, tier)
        parties = max(1, parties)
        g = Gen(rng, weights={'time_split': 0, 'tee_map': 1, 'progress': 0, 'group_by': 1, 'roll': 2, 'split': 1, 'scan': 4, 'to_list': 3,
                              'count': 3, 'sum': 3, 'batch': 2, 'lag': 2, 'distinct': 2}, max_nest=1, small=True)
        fl = self.flags()
        handler = rng.choice(HANDLERS)
        kind = rng.choice(['map', 'starmap', 'filter', 'scan', 'scan'])
        if kind == 'map':
            op = {'op': 'map', 'fn': 'rec_inc', 'site': SITE}
            ot = 'rec'
        elif kind == 'starmap':
            op = {'op': 'starmap', 'fn': 'rec_inc', 'site': SITE}
            ot = 'rec'
        elif kind == 'filter':
            op = {'op': 'filter', 'fn': rng.choice(['r_even', 'r_lt5']), 'site': SITE}
            ot = 'rec'
        else:
            acc = rng.choice(['r_sum', 'r_cnt', 'r_list'])
            seed = {'r_sum': rng.choice(['i0', 'i7']), 'r_cnt': 'i0', 'r_list': rng.choice(['l_val', 'l_fac'])}[acc]
            op = {'op': 'scan', 'fn': acc, 'seed': seed, 'reduce': rng.random() < 0.4, 'term': None, 'site': SITE}
            ot = {'r_sum': 'int', 'r_cnt': 'int', 'r_list': 'list'}[acc]
        pre = []
        if rng.random() < 0.4:
            pre = g.pipeline(St('rec', True), Flags(allow=('identity', 'do_action', 'filter', 'distinct', 'take', 'assert_')), 0, 1)
        inner = pre + [op]
        if handler != 'none':
            h = {'op': handler}
            if handler == 'error_map':
                h['value'] = {'rec': 'rec', 'int': -1, 'list': []}[ot]
                if ot in ('int', 'list') and rng.random() < 0.3:
                    h['partial'] = True        # the mapper is a functools.partial: a callable without __name__
                if rng.random() < 0.2:
                    h['value'] = 'same'      # the mapper hands back the very exception object it received
                    ot = 'any'
            inner.append(h)
            if rng.random() < 0.7:
                st = St(ot, True)
                post = g.pipeline(st, Flags(deny=('time_split', 'group_by', 'first', 'last', 'mean')), rng.choice([0, 0, 1]), rng.choice([1, 1, 2]))
                inner += post
        through = False
        if handler == 'none' and rng.random() < 0.5:
            # no handler at all: the mux error travels through the operators behind OP to the demultiplexer
            through = True
            post = g.pipeline(St(ot, True), Flags(deny=('time_split', 'group_by', 'first', 'last', 'mean', 'take', 'take_while', 'skip_last', 'tee_map')),
                              rng.choice([0, 1, 1]), rng.choice([1, 1, 2]))
            inner += post
        wrap = rng.choice(['none', 'group_by', 'group_by', 'group_by', 'roll', 'split'])
        if wrap == 'none':
            program = inner
        elif wrap == 'group_by':
            program = [{'op': 'group_by', 'key': rng.choice(['rk', 'rk_big', 'rk_tup']), 'inner': inner}]
        elif wrap == 'roll':
            program = [{'op': 'roll', 'window': rng.randint(1, 4), 'stride': rng.randint(1, 4), 'inner': inner}]
        else:
            program = [{'op': 'split', 'key': rng.choice(['rv_mod3', 'rn_div3']), 'inner': inner}]
        events, style = gen_events(rng, parties, maxev, min_len=0, values=rng.choice(['small', 'small', 'runs', 'dups']))
        # fault plan
        per = {}
        for e in events:
            per.setdefault(e['p'], []).append(e['n'])
        pattern = rng.choice(['none', 'first', 'last', 'consecutive', 'all_of_a_key', 'random', 'random', 'first_and_last'])
        plan = []
        for pty, ns in sorted(per.items()):
            if pattern == 'first':
                plan.append([pty, ns[0]])
            elif pattern == 'last':
                plan.append([pty, ns[-1]])
            elif pattern == 'first_and_last':
                plan += [[pty, ns[0]], [pty, ns[-1]]]
            elif pattern == 'consecutive':
                a = rng.randrange(len(ns))
                plan += [[pty, n] for n in ns[a:a + rng.choice([2, 3])]]
            elif pattern == 'all_of_a_key':
                if pty == sorted(per)[0]:
                    plan += [[pty, n] for n in ns]
            elif pattern == 'random':
                plan += [[pty, n] for n in ns if rng.random() < 0.3]
            if pattern in ('first', 'last') and rng.random() < 0.5:
                break
        plan = [list(x) for x in sorted(set(tuple(x) for x in plan))]
        case = {'program': program, 'events': events, 'end': 'complete', 'style': style, 'handler': handler,
                'faults': {SITE: plan}, 'pattern': pattern, 'falsy': rng.choice([False, False, False, True, 'types', 'types', 'shared'])}
        if case['falsy'] == 'shared' and handler == 'error_map' and inner[inner.index(op) + 1].get('value') == 'rec':
            case['falsy'] = False       # the mapped value is derived from the exception's arguments, which a shared object does not have
        if through:
            case['through'] = True
        if handler == 'router' and rng.random() < 0.3:
            case['late_dead_letter'] = True      # errors.subscribe() after the data stream was subscribed (before the first item)
        if not self.valid(case):
            case['program'] = [{'op': 'group_by', 'key': 'rk', 'inner': [dict(op)] + ([{'op': handler}] if handler not in ('none', 'error_map') else
                                                                                 ([{'op': 'error_map', 'value': {'rec': 'rec', 'int': -1, 'list': []}[ot]}]
                                                                                  if handler == 'error_map' else []))}]
        return case

    def execute(self, case):
        out = Outcome()
        program = case['program']
        events = case['events']
        plan = set(tuple(x) for x in case['faults'].get(SITE, []))
        handler = case['handler']
        fail = {SITE: sorted(plan)}
        falsy = case.get('falsy') or False
        ctx, final, escaped = run_mux(program, events, 'complete', monitor=False, fail=fail,
                                      extra={'falsy_faults': falsy, 'late_dead_letter': bool(case.get('late_dead_letter'))})
        out.shape = (shape_of(case), tuple(sorted(plan)), handler)
        out.steps = len(events) + 1
        out.ticks = events[-1]['t'] if events else 0
        p = out.probes
        if ctx.aborted:
            p['aborted_work_budget'] += 1
            return out
        fired = ctx.fired.get(SITE, 0)
        out.faults['user_function_raised'] += fired
        nodes, i, path = locate(program)
        opn = nodes[i]
        in_tap, out_tap = '%s/%d' % (path, i), '%s/%d' % (path, i + 1)
        dig = [ctx.trace_digest(), repr(final.terminal), repr(ctx.extra.get('dead'))]
        if escaped is not None:
            out.add('escaped', opn['op'], {'error': repr(escaped)})
            out.digest = '|'.join(dig)
            return out
        # ---- (i) records directly behind the failing operator ----
        ins, _ = lifetimes(ctx.taps.get(in_tap, []))
        outs, _ = lifetimes(ctx.taps.get(out_tap, []))
        stopped_at = None
        if handler == 'none' and final.terminal and final.terminal[0] == 'error':
            errs = [(g, s) for g, s, k, _, _ in ctx.taps.get(out_tap, []) if k == 'E']
            stopped_at = errs[0][0] if errs else None
        if [l.key for l in ins] != [l.key for l in outs]:
            out.add('lifetimes', opn['op'], {'in': [l.key for l in ins][:10], 'out': [l.key for l in outs][:10]})
        else:
            for a, b in zip(ins, outs):
                vals = [decanon(v) for _, _, v in a.items]
                if stopped_at is not None and not (a.eg is not None and a.eg < stopped_at):
                    # the stream died with the first unhandled error: only what happened before it is specified
                    keep = [j for j, (g, _, _) in enumerate(a.items) if g < stopped_at]
                    first_bad = [j for j, (g, _, _) in enumerate(a.items) if g < stopped_at and (vals[j].k, vals[j].n) in plan]
                    if first_bad:
                        keep = [j for j in keep if j <= first_bad[0]]
                    sub_items = [a.items[j] for j in keep]
                    vals = [vals[j] for j in keep]
                    ended = False
                else:
                    sub_items = a.items
                    ended = a.eg is not None
                good = [j for j, v in enumerate(vals) if (v.k, v.n) not in plan]
                exp = model(opn, [vals[j] for j in good], ended)
                seq_of = lambda j: sub_items[j][1]
                merged = []
                by_idx = {}
                for j2, cv in exp:
                    by_idx.setdefault(good[j2] if j2 != END else END, []).append(cv)
                for j, v in enumerate(vals):
                    if (v.k, v.n) in plan:
                        from rxsim.core import fault_class
                        if falsy == 'shared':
                            merged.append(('E', seq_of(j), ('exc', 'InjectedFault', (('s', SITE), ('s', 'shared')))))
                        else:
                            ename = fault_class(falsy, v.k, v.n).__name__
                            merged.append(('E', seq_of(j), ('exc', ename, (('s', SITE), v.k, v.n))))
                    for cv in by_idx.get(j, ()):
                        merged.append(('N', seq_of(j), cv))
                for cv in by_idx.get(END, ()):
                    merged.append(('N', a.eseq, cv))
                got = sorted([(g, 'N', s, v) for g, s, v in b.items] + [(g, 'E', s, v) for g, s, v in b.errors])
                got = [(k, s, v) for _, k, s, v in got]
                if got != merged:
                    kind = 'error-record' if [x for x in got if x[0] == 'E'] != [x for x in merged if x[0] == 'E'] else 'as-if-absent'
                    out.add(kind, opn['op'], {'node': opn, 'key': a.key, 'input': [v for _, _, v in sub_items], 'plan': sorted(plan),
                                              'expected': merged[:40], 'got': got[:40]})
                    break
        # ---- (ii) per handler ----
        hout = '%s/%d' % (path, i + 2)
        if handler in ('ignore', 'router') and not out.violations:
            prog_b = copy.deepcopy(program)
            nb, ib, _ = locate(prog_b)
            nb.insert(ib, {'op': 'drop_planned', 'site': SITE})
            cb, fb, eb = run_mux(prog_b, events, 'complete', monitor=False, fail={},
                                 extra={'drop': {SITE: sorted(plan)}, 'late_dead_letter': bool(case.get('late_dead_letter'))})
            if not cb.aborted:
                ha = [(s, k, key, v) for _, s, k, key, v in ctx.taps.get(hout, [])]
                hb = [(s, k, key, v) for _, s, k, key, v in cb.taps.get('%s/%d' % (path, i + 3), [])]
                oa = [(s, k, v) for _, s, k, _, v in ctx.taps.get('OUT', [])]
                ob = [(s, k, v) for _, s, k, _, v in cb.taps.get('OUT', [])]
                dig.append(repr(ob))
                if ha != hb:
                    out.add('not-as-if-absent', handler, {'behind_handler': ha[:40], 'with_items_removed': hb[:40], 'plan': sorted(plan)})
                elif oa != ob:
                    out.add('not-as-if-absent', 'downstream', {'out': oa[:40], 'with_items_removed': ob[:40], 'plan': sorted(plan),
                                                               'program': program})
        if handler == 'router' and not out.violations:
            dead = ctx.extra.get('dead', [])
            exp_dead = [(s, v) for _, s, k, _, v in ctx.taps.get(out_tap, []) if k == 'E']
            got_dead = [(s, v) for _, s, k, v in dead if k == 'N']
            done = [s for _, s, k, v in dead if k == 'c']
            fin = [s for _, s, k, _, _ in ctx.taps.get('OUT', []) if k == 'c']
            if got_dead != exp_dead:
                out.add('dead-letter-order', 'router', {'expected': exp_dead[:20], 'got': got_dead[:20]})
            elif len(done) != 1 or done != fin:
                out.add('dead-letter-completion', 'router', {'dead_letter_completed_at': done, 'stream_completed_at': fin})
            elif any(k == 'E' for _, _, k, _, _ in ctx.taps.get(hout, [])):
                out.add('error-not-routed', 'router', {})
        if handler == 'error_map' and not out.violations:
            val = nodes[i + 1].get('value')
            exp_h = []
            for _, s, k, key, v in ctx.taps.get(out_tap, []):
                if k == 'E':
                    if val == 'same':
                        exp_h.append((s, 'N', key, v))
                        continue
                    mv = F.Rec(v[2][1], v[2][2], -1, 0, False) if val == 'rec' else val
                    exp_h.append((s, 'N', key, canon(mv)))
                else:
                    exp_h.append((s, k, key, v))
            got_h = [(s, k, key, v) for _, s, k, key, v in ctx.taps.get(hout, [])]
            if got_h != exp_h:
                out.add('not-mapped-in-place', 'error_map', {'expected': exp_h[:40], 'got': got_h[:40]})
        if handler == 'ignore' and any(k == 'E' for _, _, k, _, _ in ctx.taps.get(hout, [])):
            out.add('error-not-dropped', 'ignore', {})
        if handler == 'none' and not out.violations:
            first = [(g, s, v) for g, s, k, _, v in ctx.taps.get(out_tap, []) if k == 'E']
            if fired == 0:
                if not final.terminal or final.terminal[0] != 'completed':
                    out.add('fault-free-run-failed', 'pipeline', {'terminal': final.terminal})
            else:
                if not final.terminal or final.terminal[0] != 'error' or not first or final.terminal[1] != first[0][2]:
                    out.add('unhandled-error-not-surfaced', 'demux', {'terminal': final.terminal, 'first_error': first[:1]})
                else:
                    c0, f0, e0 = run_mux(program, events, 'complete', monitor=False, fail={})
                    if not c0.aborted:
                        fs = first[0][1]
                        free = [(s, v) for _, s, k, _, v in c0.taps.get('OUT', []) if k == 'N']
                        got = [(s, v) for _, s, k, _, v in ctx.taps.get('OUT', []) if k == 'N']
                        must = [x for x in free if x[0] < fs]
                        if got[:len(must)] != must or got != free[:len(got)] or any(s > fs for s, _ in got):
                            out.add('prefix-before-error', 'pipeline', {'got': got[:30], 'fault_free': free[:30], 'failing_event': fs})
        out.digest = '|'.join(dig)
        out.states = tuple(ctx.extra.get('states', ()))
        parties = len(set(e['p'] for e in events))
        out.nontrivial = fired >= 1 and (parties >= 2 or len(events) >= 4)
        p['handler:' + handler] += 1
        if falsy and fired:
            p['falsy_exception_raised'] += 1
        if falsy == 'shared' and fired >= 2:
            p['same_exception_object_raised_again'] += 1
        if falsy == 'types' and fired:
            p['exception_families'] += 1
        p['op:' + opn['op']] += 1
        if fired:
            p['fault:' + case.get('pattern', '?')] += 1
        if parties >= 3:
            p['keys>=3'] += 1
        if program[0]['op'] in ('roll', 'split'):
            p['wrapped_in_window'] += 1
        if case.get('late_dead_letter') and fired:
            p['dead_letter_subscribed_after_data'] += 1
        if handler == 'none' and len(nodes) > i + 1 and fired:
            p['unhandled_error_through_operators'] += 1
        if handler != 'none' and len(nodes) > i + 2:
            p['stateful_downstream'] += 1
        return out


CHECK = C13()
