"""C01 - multiplexing is transparent: keyed execution equals per-group plain execution."""
from rxsim.runner import Outcome
from rxsim.program import Gen, Flags, St, valid, ops_in, depth_of, size_of
from rxsim.pipesim import run_mux, run_plain, lifetimes
from rxsim.workload import gen_events, renumber, interleaving_degree
from .common import PipelineCheck, shape_of, find_nodes

DENY = ('dist_update', 'sort', 'to_deque')


class C01(PipelineCheck):
    id = 'C01'
    title = 'multiplexing is transparent'
    rule = ('case = random pipeline P (length 1..6, tee_map with 2..4 branches nested up to 2 deep) over the dual-mode operators, with the '
            'preconditions of the property enforced structurally by the type checker, x K party scripts (each >= 1 item) interleaved by the '
            'seeded scheduler; the real code runs twice: Subject -> with_memory_store([group_by(party, [map(value), *P])]) and, per group, the '
            'plain RxPY path of the same P on that group\'s values alone; per group the item sequences must be equal element-wise with type '
            '(exact floats, NaN aware) and neither side may fail alone. non-trivial: >= 2 groups genuinely interleaved and |P| >= 2; '
            'distinct = distinct (program, schedule)')
    assumptions = ['accumulators return values of the seed\'s type', 'first/last/mean(reduce) not applied to a possibly empty group',
                   'inside tee_map no completion-triggered operator after take/first',
                   'streaming scans use non-mutating accumulators (aliasing of a user-mutated accumulator is not a transparency question, DESIGN.md C01)']
    probe_names = ('values>=2**31', 'long_stream', 'groups>=3_interleaved', 'tee_inside', 'depth>=2_tee', 'len>=4', 'typed_state', 'object_state', 'take_or_first', 'both_failed')

    def flags(self):
        # 'nreset' returns None for an int seed: outside "accumulators return values of the seed's type"
        return Flags(dual=True, no_mut_stream=True, deny=DENY, deny_accs=('nreset',))

    def start_st(self):
        return St('int', False, False)

    def valid(self, case):
        ev = case.get('events')
        if not isinstance(ev, list) or not ev:
            return False
        return valid(case['program'], self.start_st(), self.flags())

    def gen(self, rng, tier):
        parties, maxev = self.sizes(rng, tier)
        g = Gen(rng, weights={'tee_map': 4, 'scan': 6, 'map': 6, 'progress': 1}, max_nest=2, small=(tier == 'quick'))
        length = rng.choice([1, 2, 3, 3, 4, 5, 6])
        program = g.pipeline(self.start_st(), self.flags(), rng.choice([0, 1, 1, 2]), length)
        events, style = gen_events(rng, parties, maxev, min_len=1, values=rng.choice(['small', 'small', 'dups', 'wide', 'inc', 'huge']))
        return {'program': program, 'events': events, 'end': 'complete', 'style': style}

    def execute(self, case):
        out = Outcome()
        P = case['program']
        events = case['events']
        wrapped = [{'op': 'group_by', 'key': 'rk', 'inner': [{'op': 'map', 'fn': 'v_of'}] + P}]
        ctx, final, escaped = run_mux(wrapped, events, 'complete', monitor=False)
        out.shape = shape_of(case)
        out.steps = len(events) + 1
        out.ticks = events[-1]['t'] if events else 0
        p = out.probes
        if ctx.aborted:
            p['aborted_work_budget'] += 1
            return out
        mux_failed = escaped is not None or (final.terminal and final.terminal[0] == 'error')
        heads, _ = lifetimes(ctx.taps.get('P/0:in/0', []))
        tails, _ = lifetimes(ctx.taps.get('P/0:in/%d' % (len(P) + 1), []))
        party_of = {}
        for h in heads:
            if h.items:
                party_of[h.key] = h.items[0][2][2]   # ('nt','Rec',k,...)[2]
        by_party = {}
        for t in tails:
            by_party[party_of.get(t.key)] = t
        values = {}
        for e in events:
            values.setdefault(e['p'], []).append(e['v'])
        dig = [ctx.trace_digest(), repr(final.terminal)]
        plain_failed = []
        for party in sorted(values):
            pctx, pfinal, pesc = run_plain(P, values[party], 'complete')
            if pctx.aborted:
                p['aborted_work_budget'] += 1
                return out
            pv = [v for _, _, k, _, v in pctx.taps.get('OUT', []) if k == 'N']
            dig.append(repr(pv))
            failed = pesc is not None or (pfinal.terminal and pfinal.terminal[0] == 'error')
            if failed:
                plain_failed.append((party, repr(pesc) if pesc is not None else pfinal.terminal[1]))
                continue
            if mux_failed:
                continue
            t = by_party.get(party)
            mv = t.values() if t is not None else None
            if mv != pv:
                out.add('mux!=plain', self.blame(P, ctx, pctx, party_of, party), {
                    'group': party, 'values': values[party], 'mux': mv, 'plain': pv})
                break
        if mux_failed and not plain_failed:
            out.add('mux-failed-alone', 'pipeline', {'error': repr(escaped) if escaped is not None else final.terminal[1]})
        elif plain_failed and not mux_failed:
            out.add('plain-failed-alone', 'pipeline', {'group': plain_failed[0][0], 'error': plain_failed[0][1],
                                                       'values': values[plain_failed[0][0]]})
        elif mux_failed and plain_failed:
            p['both_failed'] += 1
        out.digest = '|'.join(dig)
        out.states = tuple(ctx.extra.get('states', ()))
        ops = ops_in(P)
        inter = interleaving_degree(events)
        out.nontrivial = len(values) >= 2 and inter >= 2 and len(P) >= 2 and not mux_failed
        if len(values) >= 3 and inter >= 3:
            p['groups>=3_interleaved'] += 1
        if 'tee_map' in ops:
            p['tee_inside'] += 1
            if depth_of(P) >= 2 and any('tee_map' in ops_in(b) for n in find_nodes(P, lambda x: x['op'] == 'tee_map') for b in n['branches']):
                p['depth>=2_tee'] += 1
        if len(P) >= 4:
            p['len>=4'] += 1
        if any(e['v'] >= 2 ** 31 for e in events):
            p['values>=2**31'] += 1
        if len(events) >= 300:
            p['long_stream'] += 1
        from rxsim import funcs as F
        for n in find_nodes(P, lambda x: x['op'] == 'scan'):
            if F.ACCS[n['fn']][2] in ('int', 'float', 'bool'):
                p['typed_state'] += 1
            else:
                p['object_state'] += 1
        if ops & {'count', 'sum', 'first', 'take'}:
            p['typed_state'] += 1
        if ops & {'take', 'first'}:
            p['take_or_first'] += 1
        for o in ops:
            p['op:' + o] += 1
        return out

    def blame(self, P, ctx, pctx, party_of, party):
        """First top-level operator of P at whose output the two paths differ for this group."""
        for i in range(len(P)):
            mt, _ = lifetimes(ctx.taps.get('P/0:in/%d' % (i + 2), []))
            mv = None
            for t in mt:
                if party_of.get(t.key) == party:
                    mv = t.values()
            pv = [v for _, _, k, _, v in pctx.taps.get('P/%d' % (i + 1), []) if k == 'N']
            if mv is not None and mv[:len(pv)] != pv and mv != pv[:len(mv)]:
                return P[i]['op']
            if mv is not None and len(mv) != len(pv) and i == len(P) - 1:
                return P[i]['op']
        return 'pipeline'


CHECK = C01()
