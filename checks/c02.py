"""C02 - state confinement: a key lifetime's output depends only on that lifetime's items."""
from rxsim.runner import Outcome
from rxsim.program import Gen, Flags, St, walk, WINDOWS, ops_in, depth_of
from rxsim.pipesim import run_mux, lifetimes
from rxsim.ref import decanon
from rxsim.workload import gen_events, interleaving_degree
from .common import PipelineCheck, shape_of, find_nodes

MAX_STANDALONE = 60


class C02(PipelineCheck):
    id = 'C02'
    title = 'state confinement'
    rule = ('case = wrappers (group_by / roll / split / time_split, nested up to 2 incl. roll-in-roll and group_by-in-roll) around inner pipelines '
            'drawn from all stateful operators (scan family, first, last, take, distinct, distinct_until_changed, lag, pad_*, start_with, batch, '
            'assert_1, tee_map zip/combine_latest with branches silent in some lifetimes, nested windows) x seeded interleaving of party scripts '
            'biased to many short lifetimes per slot x crash point (source error / dispose at an arbitrary event); for every lifetime seen at the '
            'head tap of every inner pipeline the real inner pipeline is re-run alone (fresh store, single key, exactly that lifetime\'s items, '
            'completed only if the lifetime was) and its output must equal what the tail tap recorded for that lifetime. '
            'non-trivial: some slot served >= 2 lifetimes or >= 2 keys interleaved, and >= 3 lifetimes compared; distinct = distinct (program, schedule)')
    assumptions = ['re-subscribing one pipeline object is not required by the text and not exercised',
                   'the stand-alone run is multiplexed too, so take/first semantics are identical']
    probe_names = ('slot_reused', 'slot_reused>=5', 'sparse_index', 'tee_branch_silent', 'nested2', 'crash_with_open_lifetimes',
                   'interleaved>=3', 'lifetimes_compared')
    weights = {'scan': 8, 'first': 3, 'last': 4, 'take': 4, 'distinct': 5, 'distinct_until_changed': 5, 'lag': 5, 'pad_start': 4,
               'pad_end': 4, 'start_with': 4, 'batch': 5, 'assert_1': 3, 'tee_map': 6, 'filter': 4, 'map': 4, 'progress': 1,
               'group_by': 2, 'roll': 2, 'split': 2, 'time_split': 1, 'count': 2, 'sum': 2, 'to_list': 3}

    def wrapper(self, rng, inner, kind=None, tier='quick'):
        kind = kind or rng.choice(['group_by', 'roll', 'roll', 'split', 'split', 'time_split'])
        if kind == 'group_by':
            return {'op': 'group_by', 'key': rng.choice(['rk', 'rk_big', 'rv_mod3', 'rv_tup']), 'inner': inner}
        if kind == 'roll':
            hi = 5 if tier == 'quick' else 9
            return {'op': 'roll', 'window': rng.randint(1, hi), 'stride': rng.randint(1, hi), 'inner': inner}
        if kind == 'split':
            return {'op': 'split', 'key': rng.choice(['rv_mod3', 'rn_div3', 'rv_div2big', 'rv_tup', 'rv_np', 'rv_nan', 'rv_nan_fresh']), 'inner': inner}
        closing = rng.random() < 0.5
        return {'op': 'time_split', 'active': rng.choice([None, 3, 5]), 'inactive': rng.choice([None, 1, 2]), 'closing': closing,
                'include': rng.random() < 0.5, 'inner': inner}

    def gen(self, rng, tier):
        parties, maxev = self.sizes(rng, tier)
        g = Gen(rng, weights=self.weights, max_nest=2, small=(tier == 'quick'))
        kind1 = rng.choice(['group_by', 'roll', 'roll', 'split', 'split', 'time_split'])
        inner_empty = kind1 == 'time_split'
        inner = g.pipeline(St('rec', inner_empty), Flags(), rng.choice([1, 1, 2]), rng.choice([1, 2, 2, 3]))
        node = self.wrapper(rng, inner, kind1, tier)
        if kind1 == 'time_split' and not node['closing']:
            pass
        program = [node]
        r = rng.random()
        if r < 0.35 and kind1 != 'time_split':
            program = [self.wrapper(rng, program, rng.choice(['group_by', 'roll', 'split']), tier)]
        elif r < 0.5:
            program = [{'op': 'group_by', 'key': 'rk', 'inner': program}]
        from rxsim.program import valid
        if not valid(program, St('rec', True), Flags()):
            program = [{'op': 'group_by', 'key': 'rk', 'inner': [{'op': 'roll', 'window': 2, 'stride': 2, 'inner': [{'op': 'to_list'}]}]}]
        ts = find_nodes(program, lambda n: n['op'] == 'time_split')
        to = (ts[0].get('active'), ts[0].get('inactive')) if ts else (None, None)
        events, style = gen_events(rng, parties, maxev, timeouts=to, p_close=0.25 if ts else 0.0,
                                   values=rng.choice(['small', 'runs', 'runs', 'dups', 'inc']))
        end = rng.choice(['complete'] * 7 + ['error', 'dispose', 'dispose'])
        return {'program': program, 'events': events, 'end': end, 'style': style}

    def execute(self, case):
        out = Outcome()
        program = case['program']
        ctx, final, escaped = run_mux(program, case['events'], case['end'], monitor=False)
        out.shape = shape_of(case)
        out.steps = len(case['events']) + 1
        out.ticks = case['events'][-1]['t'] if case['events'] else 0
        p = out.probes
        if ctx.aborted:
            p['aborted_work_budget'] += 1
            return out
        failed = escaped is not None or (final.terminal and final.terminal[0] == 'error' and
                                         not (case['end'] == 'error' and final.terminal[1][1] == 'SourceError'))
        if failed:
            p['sut_error'] += 1
            out.add('raised', 'pipeline', {'error': repr(escaped) if escaped is not None else final.terminal[1]})
            return out
        dig = [ctx.trace_digest()]
        compared = 0
        reused = 0
        for node, path, in_tap, out_tap, i in walk(program):
            if node['op'] not in WINDOWS:
                continue
            inner = node['inner']
            head = '%s/%d:in/0' % (path, i)
            tail = '%s/%d:in/%d' % (path, i, len(inner))
            hl, hp = lifetimes(ctx.taps.get(head, []))
            tl, tp = lifetimes(ctx.taps.get(tail, []))
            if [l.key for l in hl] != [l.key for l in tl]:
                out.add('lifetimes', node['op'], {'head': [l.key for l in hl][:20], 'tail': [l.key for l in tl][:20]})
                continue
            slots = {}
            for l in hl:
                slots[l.key[0]] = slots.get(l.key[0], 0) + 1
            reused = max([reused] + list(slots.values()))
            idxs = sorted(slots)
            if idxs and idxs[-1] - idxs[0] + 1 > len(idxs):
                p['sparse_index'] += 1
            if case['end'] != 'complete' and any(l.eg is None for l in hl):
                p['crash_with_open_lifetimes'] += 1
            step = max(1, len(hl) // MAX_STANDALONE)
            for li in range(0, len(hl), step):
                H, T = hl[li], tl[li]
                items = [decanon(v) for _, _, v in H.items]
                sctx, sfinal, sesc = run_mux(inner, None, 'complete' if H.eg is not None else 'none', monitor=False, items=items)
                if sctx.aborted:
                    continue
                compared += 1
                sv = [v for _, _, k, _, v in sctx.taps.get('OUT', []) if k == 'N']
                tv = T.values()
                dig.append(repr(sv))
                serr = sesc is not None or (sfinal.terminal and sfinal.terminal[0] == 'error')
                if serr:
                    out.add('standalone-raised', node['op'], {'inner': inner, 'items': [v for _, _, v in H.items],
                                                             'error': repr(sesc) if sesc is not None else sfinal.terminal[1]})
                    break
                if sv != tv:
                    out.add('lifetime!=standalone', self.blame(inner), {
                        'wrapper': {k: v for k, v in node.items() if k != 'inner'}, 'inner': inner, 'key': H.key,
                        'lifetime_ordinal_of_slot': sum(1 for x in hl[:li] if x.key[0] == H.key[0]),
                        'items': [v for _, _, v in H.items], 'completed': H.eg is not None, 'in_place': tv, 'standalone': sv})
                    break
        out.digest = '|'.join(dig) + repr(final.terminal)
        out.states = tuple(ctx.extra.get('states', ()))
        p['lifetimes_compared'] += compared
        inter = interleaving_degree(case['events'])
        out.nontrivial = compared >= 3 and (reused >= 2 or inter >= 2)
        if reused >= 2:
            p['slot_reused'] += 1
        if reused >= 5:
            p['slot_reused>=5'] += 1
        if depth_of(program) >= 3:
            p['nested2'] += 1
        if inter >= 3:
            p['interleaved>=3'] += 1
        if find_nodes(program, lambda n: n['op'] == 'tee_map' and n['join'] != 'merge' and
                      any(x['op'] in ('filter', 'take', 'first') for b in n['branches'] for x in b)):
            p['tee_branch_silent'] += 1
        if case['end'] != 'complete':
            out.faults['source_' + case['end']] += 1
        return out

    def blame(self, inner):
        ops = sorted(ops_in(inner))
        for o in ('tee_map', 'scan', 'distinct', 'lag', 'batch', 'take', 'first', 'last', 'pad_end', 'pad_start', 'start_with',
                  'distinct_until_changed', 'assert_1'):
            if o in ops:
                return o
        return ops[0] if ops else 'inner'


CHECK = C02()
