"""Shared pieces of the operator-pipeline checks (C01-C11, C13)."""
import json

from rxsim.runner import Check, Outcome
from rxsim.program import St, Flags, valid, ops_in, depth_of, size_of
from rxsim.workload import gen_events, renumber, interleaving_degree

REAL = ['rxsci (all operators under /repo, current working tree)', 'RxPY 3.2 core (Subject, pipe, publish, Observable.subscribe, AutoDetachObserver)',
        'rxsci.state.MemoryStore / StoreManager']
STUBS = ['item producers (party scripts resumed by the seeded scheduler)', 'virtual clock (item timestamps, rxsci.operators.progress.timer)',
         'final subscriber', 'user functions (fixed library rxsim/funcs.py)']


class PipelineCheck(Check):
    real = REAL
    stubs = STUBS
    start_type = 'rec'
    dual = False

    def flags(self):
        return Flags(dual=self.dual)

    def start_st(self):
        # the top-level key (0,) is empty when the source is empty
        return St(self.start_type, True, False)

    def valid(self, case):
        ev = case.get('events')
        if not isinstance(ev, list):
            return False
        for e in ev:
            if not isinstance(e, dict) or e['t'] < 0:
                return False
        if case.get('end') not in ('complete', 'error', 'dispose'):
            return False
        if case.get('driver', 'hot') not in ('hot', 'cold') or (case.get('driver') == 'cold' and case.get('end') == 'dispose'):
            return False
        return valid(case['program'], self.start_st(), self.flags())

    def normalize(self, case):
        case = dict(case)
        case['events'] = renumber(case['events'], monotonic=not case.get('skew'))
        return case

    def sizes(self, rng, tier):
        """(parties, max events).  A few cases per batch are *scale* cases: hundreds of items per key, or
        hundreds of keys, with parameters beyond CPython's small-int cache - counters, slot rings, identity
        comparisons and buffers that only go wrong at that size are out of reach of short streams."""
        from rxsim import program
        program.SCALE[0] = False
        r = rng.random()
        if r < (0.03 if tier == 'quick' else 0.08):
            program.SCALE[0] = True
            return rng.choice([1, 1, 2, 3]), rng.choice([350, 600, 800])
        if r < (0.045 if tier == 'quick' else 0.12):
            program.SCALE[0] = rng.random() < 0.3
            return rng.choice([260, 300]), rng.choice([600, 800])
        if tier == 'quick':
            return rng.choice([1, 2, 2, 3, 3, 4]), rng.choice([6, 12, 24])
        return rng.choice([1, 2, 3, 4, 6, 8]), rng.choice([8, 24, 60, 150])


def shape_of(case):
    return (json.dumps(case['program'], sort_keys=True),
            tuple((e['p'], e['v'], e['t'], e.get('c', 0)) for e in case['events']), case.get('end'))


def find_nodes(nodes, pred, acc=None):
    acc = [] if acc is None else acc
    for n in nodes:
        if pred(n):
            acc.append(n)
        if 'inner' in n:
            find_nodes(n['inner'], pred, acc)
        if 'branches' in n:
            for b in n['branches']:
                find_nodes(b, pred, acc)
    return acc
