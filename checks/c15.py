"""C15 - framing round-trips under any re-chunking of the framed stream."""
import rx
import rxsci.framing.line as line
import rxsci.framing.length_prefix as lp

from rxsim.runner import Check, Outcome
import random

from rxsim.bytesim import gen_cuts, cut, drive, collect, drive_concurrent, merge_order

ALPHA = ['a', 'b', ' ', ',', '"', '\\', '\r', '\x00', '\x04', '\x01', 'é', '€', '\U0001F600', 'z' * 5,
         '\ufeff', '\x0b', '\x0c', '\x1c', '\x85', '\u2028', '\u2029']      # a BOM and everything str.splitlines() (but not unframe) splits on


def lp_item(spec):
    return bytes.fromhex(spec)


class C15(Check):
    id = 'C15'
    title = 'framing round-trips under any re-chunking'
    rule = ('case = item list (empty items, empty list, items containing the other framing\'s bytes) framed by the real frame() (line framing; '
            'length-prefix framing with prefix size 1/2/4/8 and both byte orders); the concatenation is cut by a seeded schedule (inside a prefix, '
            'between prefix and payload, at every newline +-1, empty segments, 1-unit segments, all-in-one) and, for streams <= 300 units, *every* '
            'single cut position and every truncation offset is swept as well; fed chunk by chunk through a Subject into the real unframe(); also several streams through their own operator instances at the same time, a framed stream tunnelled inside another, and (1 case in 500 / 100) one stream of 2-13 MiB in fixed-size chunks through one subscription. '
            'oracle: items equal and in order; after truncation + completion: line -> complete lines plus the unterminated rest if non-empty, '
            'length-prefix -> exactly the frames fully contained. non-trivial: >= 2 items and >= 1 cut strictly inside the stream; '
            'distinct = distinct (items, configuration, schedule)')
    real = ['rxsci.framing.line.frame/unframe, rxsci.framing.length_prefix.frame/unframe (current working tree)', 'RxPY Subject/pipe']
    stubs = ['the sender and the transport (chunk boundaries, truncation)', 'final subscriber']
    assumptions = ['line items contain no newline; length-prefixed items fit the prefix']
    probe_names = ('nested_same_operator', 'concurrent_streams', 'item_at_prefix_sign_limit', 'cut_inside_prefix', 'cut_between_prefix_and_payload', 'empty_segment', 'one_unit_segments', 'empty_item', 'empty_list',
                   'stream>=2MiB', 'stream>=4MiB', 'truncated', 'swept_all_single_cuts', 'prefix:1', 'prefix:2', 'prefix:4', 'prefix:8', 'order:big', 'line', 'chunk_without_newline')
    quick_cap = 300000

    def gen(self, rng, tier):
        if rng.random() < (0.002 if tier == 'quick' else 0.01):
            # one long stream (several MiB through one subscription); the items are generated inside execute
            return {'framing': rng.choice(['line', 'lp', 'lp']), 'prefix': rng.choice([2, 4, 8]), 'order': rng.choice(['little', 'big']),
                    'long': {'n': rng.choice([3000, 6000, 9000]), 'size': rng.choice([700, 1000, 1500]),
                             'chunk': rng.choice([50000, 65536, 100003, 8191])},
                    'items': [], 'cuts': [], 'truncate': None, 'sweep': False}
        framing = rng.choice(['line', 'lp'])
        n = rng.choice([0, 1, 2, 3, 5, 8]) if tier == 'quick' else rng.choice([0, 1, 3, 8, 20, 60])
        case = {'framing': framing}
        if framing == 'line':
            items = []
            for _ in range(n):
                items.append(''.join(rng.choice(ALPHA) for _ in range(rng.choice([0, 0, 1, 2, 5, 12]))))
            if items and rng.random() < 0.15:
                items[0] = rng.choice(['\ufeff', '\ufffe', '\r', '\u2028']) + items[0]     # such a character first in the stream
            case['items'] = items
            stream_len = sum(len(i) + 1 for i in items)
            hot = []
            off = 0
            for i in items:
                off += len(i) + 1
                hot += [off - 1, off]
        else:
            ps = rng.choice([1, 2, 4, 8])
            case['prefix'] = ps
            case['order'] = rng.choice(['little', 'big'])
            items = []
            for _ in range(n):
                ln = rng.choice([0, 0, 1, 2, 5, 10, 40, 255 if ps == 1 else 300])
                if rng.random() < 0.04:
                    # sizes around the signed/unsigned limits of the prefix
                    ln = rng.choice({1: [127, 128, 200, 255], 2: [32767, 32768, 40000, 65535], 4: [32768, 70000], 8: [32768, 70000]}[ps])
                b = bytes(rng.choice([10, 0, 1, 4, 255, rng.randrange(256)]) for _ in range(min(ln, 300)))
                b = (b * (ln // max(1, len(b)) + 1))[:ln] if ln > 300 else b
                items.append(b.hex())
            case['items'] = items
            stream_len = sum(len(i) // 2 + ps for i in items)
            hot = []
            off = 0
            for i in items:
                hot += [off, off + 1, off + ps - 1, off + ps]
                off += len(i) // 2 + ps
                hot.append(off)
        if rng.random() < 0.2 and n:
            case['concurrent'] = rng.randrange(1 << 30)
        if framing == 'lp' and rng.random() < 0.2 and n:
            case['nested'] = rng.randrange(1, 1 << 30)
        case['cuts'] = gen_cuts(rng, stream_len, hot)
        case['truncate'] = rng.randint(0, stream_len) if (stream_len and rng.random() < 0.3) else None
        case['sweep'] = stream_len <= 300 and rng.random() < (0.5 if tier == 'quick' else 0.8)
        return case

    def valid(self, case):
        try:
            lg = case.get('long')
            if lg is not None:
                return (case['framing'] in ('line', 'lp') and case.get('prefix') in (2, 4, 8) and case.get('order') in ('little', 'big') and
                        0 <= lg['n'] <= 10000 and 1 <= lg['size'] <= 2000 and lg['chunk'] >= 1000 and not case['items'])
            if case['framing'] == 'line':
                return all(isinstance(i, str) and '\n' not in i for i in case['items']) and all(isinstance(c, int) and c >= 0 for c in case['cuts'])
            ps = case['prefix']
            if ps not in (1, 2, 4, 8) or case['order'] not in ('little', 'big'):
                return False
            for i in case['items']:
                b = bytes.fromhex(i)
                if len(b) >= 2 ** (8 * ps):
                    return False
            return all(isinstance(c, int) and c >= 0 for c in case['cuts']) and (case['truncate'] is None or case['truncate'] >= 0)
        except (KeyError, ValueError, TypeError):
            return False

    def normalize(self, case):
        case = dict(case)
        case['cuts'] = sorted(case['cuts'])
        return case

    def one(self, case, items, stream, framed_lens, cuts, truncate, out):
        line_mode = case['framing'] == 'line'
        chunks = cut(stream, cuts, truncate)
        op = line.unframe() if line_mode else lp.unframe(prefix_size=case['prefix'], byteorder=case['order'])
        got, term, _ = drive(chunks, op)
        n = len(stream) if truncate is None else min(truncate, len(stream))
        # expected
        exp = []
        off = 0
        for it, fl in zip(items, framed_lens):
            if off + fl <= n:
                exp.append(it)
                off += fl
            else:
                if line_mode and n - off > 0:
                    exp.append(stream[off:n])      # unterminated rest, delivered at completion
                break
        if term is None or term[0] != 'completed' or got != exp:
            kind = 'roundtrip' if truncate is None else 'truncated'
            out.add(kind, case['framing'], {'cuts': cuts, 'truncate': truncate, 'expected': [repr(x) for x in exp][:20],
                                            'got': [repr(x) for x in got][:20], 'terminal': repr(term)})
            return False
        return True

    def execute_long(self, case):
        out = Outcome()
        lg = case['long']
        line_mode = case['framing'] == 'line'
        if line_mode:
            items = [chr(97 + i % 26) * (lg['size'] + i % 13) for i in range(lg['n'])]
            framed, t = collect(rx.from_(items).pipe(line.frame()))
            stream = ''.join(framed)
            op = line.unframe()
        else:
            items = [bytes([i % 251]) * (lg['size'] + i % 13) for i in range(lg['n'])]
            framed, t = collect(rx.from_(items).pipe(lp.frame(prefix_size=case['prefix'], byteorder=case['order'])))
            stream = b''.join(framed)
            op = lp.unframe(prefix_size=case['prefix'], byteorder=case['order'])
        c = lg['chunk']
        chunks = [stream[a:a + c] for a in range(0, len(stream), c)]
        got, term, _ = drive(chunks, op)
        if term is None or term[0] != 'completed' or got != items:
            k = next((i for i, (a, b) in enumerate(zip(got, items)) if a != b), min(len(got), len(items)))
            out.add('roundtrip', case['framing'], {'long_stream_bytes': len(stream), 'chunk': c, 'items': len(items), 'got_items': len(got),
                                                   'first_difference_at_item': k, 'terminal': repr(term),
                                                   'got_len': len(got[k]) if k < len(got) else None,
                                                   'expected_len': len(items[k]) if k < len(items) else None})
        out.steps = len(chunks)
        out.ticks = len(stream)
        out.nontrivial = True
        out.shape = ('long', case['framing'], case['prefix'], case['order'], lg['n'], lg['size'], c)
        out.digest = repr((len(stream), len(got), repr(term), [v.to_json() for v in out.violations]))
        out.probes['stream>=2MiB'] += 1 if len(stream) >= 2 * 1024 * 1024 else 0
        out.probes['stream>=4MiB'] += 1 if len(stream) >= 4 * 1024 * 1024 else 0
        return out

    def execute(self, case):
        if case.get('long') is not None:
            return self.execute_long(case)
        out = Outcome()
        line_mode = case['framing'] == 'line'
        p = out.probes
        if line_mode:
            items = list(case['items'])
            framed, t = collect(rx.from_(items).pipe(line.frame()))
            stream = ''.join(framed)
            p['line'] += 1
        else:
            items = [bytes.fromhex(i) for i in case['items']]
            framed, t = collect(rx.from_(items).pipe(lp.frame(prefix_size=case['prefix'], byteorder=case['order'])))
            stream = b''.join(framed)
            p['prefix:%d' % case['prefix']] += 1
            if case['order'] == 'big':
                p['order:big'] += 1
        if t is None or t[0] != 'completed' or len(framed) != len(items):
            out.add('frame-failed', case['framing'], {'terminal': repr(t)})
            return out
        flens = [len(f) for f in framed]
        n = len(stream)
        schedules = [(case['cuts'], case.get('truncate'))]
        if case.get('sweep'):
            schedules += [([k], None) for k in range(0, n + 1)]
            schedules += [(case['cuts'], k) for k in range(0, n)]
            p['swept_all_single_cuts'] += 1
        runs = 0
        for cuts, trunc in schedules:
            runs += 1
            if not self.one(case, items, stream, flens, cuts, trunc, out):
                break
        if not out.violations and case.get('concurrent') and items:
            # a second and third stream of the same framing alive at the same time (rotations of the item list)
            rng = random.Random(case['concurrent'])
            lists = [items, items[1:] + items[:1], list(reversed(items))][:rng.choice([2, 3])]
            if line_mode:
                mk_f, mk_u = (lambda i: line.frame()), (lambda i: line.unframe())
            else:
                mk_f = lambda i: lp.frame(prefix_size=case['prefix'], byteorder=case['order'])
                mk_u = lambda i: lp.unframe(prefix_size=case['prefix'], byteorder=case['order'])
            res = drive_concurrent(lists, mk_f, merge_order(rng, [len(x) for x in lists]))
            p['concurrent_streams'] += 1
            joined = [(''.join(o) if line_mode else b''.join(o)) for o, _ in res]
            cl = [cut(j, gen_cuts(rng, len(j), [1, 2, 3])) for j in joined]
            res2 = drive_concurrent(cl, mk_u, merge_order(rng, [len(x) for x in cl]))
            for i, (got_i, t_i) in enumerate(res2):
                if t_i is None or t_i[0] != 'completed' or got_i != lists[i]:
                    out.add('concurrent', case['framing'], {'stream': i, 'of': len(lists), 'terminal': repr(t_i),
                                                            'expected': [repr(x)[:60] for x in lists[i]][:10], 'got': [repr(x)[:60] for x in got_i][:10]})
                    break
        if not out.violations and not line_mode and case.get('nested') and items:
            # a length-prefixed stream tunnelled inside another one, both unframed in ONE synchronous chain: the inner
            # operator's on_next runs nested inside the outer operator's on_next (re-entrancy of shared scratch state)
            import rx as _rx
            rng = random.Random(case['nested'])
            ips, iorder = rng.choice([1, 2, 4, 8]), rng.choice(['little', 'big'])
            ok_items = [i for i in items if len(i) < 2 ** (8 * ips)]
            inner_framed, _ = collect(_rx.from_(ok_items).pipe(lp.frame(prefix_size=ips, byteorder=iorder)))
            inner_stream = b''.join(inner_framed)
            outer_items = [c for c in cut(inner_stream, gen_cuts(rng, len(inner_stream), [1, 2, 3, 5]))
                           if len(c) < 2 ** (8 * case['prefix'])]
            if b''.join(outer_items) == inner_stream:
                outer_framed, _ = collect(_rx.from_(outer_items).pipe(lp.frame(prefix_size=case['prefix'], byteorder=case['order'])))
                outer_stream = b''.join(outer_framed)
                chunks = cut(outer_stream, gen_cuts(rng, len(outer_stream), [1, 2, 3]))
                got, term, _ = drive(chunks, _rx.pipe(lp.unframe(prefix_size=case['prefix'], byteorder=case['order']),
                                                      lp.unframe(prefix_size=ips, byteorder=iorder)))
                p['nested_same_operator'] += 1
                if term is None or term[0] != 'completed' or got != ok_items:
                    out.add('nested', 'lp', {'outer': [case['prefix'], case['order']], 'inner': [ips, iorder], 'terminal': repr(term),
                                             'expected': [repr(x)[:40] for x in ok_items][:10], 'got': [repr(x)[:40] for x in got][:10]})
        out.steps = runs
        out.ticks = sum(len(c) + 1 for c, _ in schedules)
        out.digest = repr((stream, [v.to_json() for v in out.violations], runs))
        out.shape = (repr(case['items']), case['framing'], case.get('prefix'), case.get('order'), tuple(case['cuts']), case.get('truncate'),
                     bool(case.get('sweep')))
        inner = [c for c in case['cuts'] if 0 < c < n]
        out.nontrivial = len(items) >= 2 and (bool(inner) or bool(case.get('sweep')))
        if case.get('truncate') is not None or case.get('sweep'):
            out.faults['truncation_then_completion'] += (n if case.get('sweep') else 1)
        if not items:
            p['empty_list'] += 1
        if any(len(i) == 0 for i in items):
            p['empty_item'] += 1
        if not line_mode and any(len(i) >= 2 ** (8 * case['prefix'] - 1) for i in items):
            p['item_at_prefix_sign_limit'] += 1
        segs = cut(stream, case['cuts'], case.get('truncate'))
        if any(len(s) == 0 for s in segs):
            p['empty_segment'] += 1
        if len(segs) > 3 and all(len(s) <= 1 for s in segs):
            p['one_unit_segments'] += 1
        if line_mode:
            if any('\n' not in s and len(s) > 0 for s in segs[:-1]):
                p['chunk_without_newline'] += 1
        else:
            ps = case['prefix']
            off = 0
            borders, insides = set(), set()
            for fl in flens:
                insides.update(range(off + 1, off + ps))
                borders.add(off + ps)
                off += fl
            if any(c in insides for c in case['cuts']) or case.get('sweep'):
                p['cut_inside_prefix'] += 1
            if any(c in borders for c in case['cuts']) or case.get('sweep'):
                p['cut_between_prefix_and_payload'] += 1
        if case.get('truncate') is not None:
            p['truncated'] += 1
        return out

    def extra_candidates(self, case):
        if case.get('sweep'):
            out = self.execute(case)
            for v in out.violations:
                d = v.detail
                yield dict(case, sweep=False, cuts=list(d['cuts']), truncate=d['truncate'])


CHECK = C15()
