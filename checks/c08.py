"""C08 - tee_map equals running each branch independently and joining the results."""
import copy

from rxsim.runner import Outcome
from rxsim.program import Gen, Flags, St, walk, ops_in, depth_of, valid
from rxsim.pipesim import run_mux, run_plain, lifetimes
from rxsim.ref import local_check
from rxsim.workload import gen_events, interleaving_degree
from .common import PipelineCheck, shape_of, find_nodes

KINDS = ('join-values', 'join-stamps', 'join-protocol')


def path_to_first_tee(nodes):
    """Index path [(level nodes, index)...] to the first tee_map found depth-first through window operators."""
    for i, n in enumerate(nodes):
        if n['op'] == 'tee_map':
            return [(nodes, i)]
        if 'inner' in n:
            sub = path_to_first_tee(n['inner'])
            if sub:
                return [(nodes, i)] + sub
    return None


def branch_alone(program, bi):
    """(program', tap path of the branch's tail) with the first tee_map replaced by its branch bi and every
    operator after it (at every enclosing level) dropped."""
    prog = copy.deepcopy(program)
    chain = path_to_first_tee(prog)
    nodes, path = prog, 'P'
    for level, (lv, i) in enumerate(chain):
        node = lv[i]
        if node['op'] == 'tee_map':
            branch = node['branches'][bi]
            lv[i:] = branch
            tail = '%s/%d' % (path, i + len(branch))
            tee_tail = None
            return prog, tail
        del lv[i + 1:]
        path = '%s/%d:in' % (path, i)
    return None, None


def tee_taps(program):
    """(tee node, path, index) of the first tee_map."""
    chain = path_to_first_tee(program)
    path = 'P'
    for lv, i in chain:
        if lv[i]['op'] == 'tee_map':
            return lv[i], path, i
        path = '%s/%d:in' % (path, i)


def sched_extra(case):
    """the pipeline is subscribed with an explicit scheduler object when the case asks for it"""
    if case.get('scheduler'):
        from rx.scheduler import ImmediateScheduler
        return {'the_scheduler': ImmediateScheduler()}
    return None


class C08(PipelineCheck):
    id = 'C08'
    title = 'tee_map = branches run independently, joined'
    rule = ('case = tee_map with 2..4 branches (streaming, filtering, multi-emitting flat_map, reducing, batching, nested windows, nested tee_map) '
            'x join in {merge, zip, combine_latest}, at top level / under group_by (fresh slots) / under roll, split, time_split (reused slots) on '
            'multiplexed sources x seeded interleavings, and on ordinary observables; oracle 1 (differential): each branch is re-run alone under '
            'the same wrapper and schedule and must produce, per key lifetime, exactly the records seen at that branch\'s tail inside the tee; '
            'oracle 2 (join model): the branch outputs ordered by (causing input record, branch index, position) are joined by a 10-line model and '
            'must equal the tee\'s own output records (values and source event). non-trivial: >= 3 input items reach the tee and two branches emit '
            'a different number of items, or a slot is reused; distinct = distinct (program, schedule). About one case in seven puts an assert_ that fails '
            'on one value into a branch: the tee must then end with on_error in the source event, and with the error, with which that branch '
            'ends when run alone')
    assumptions = ['order of branch outputs inside one input item is branch order (the statement\'s "in branch order per source event")']
    probe_names = ('subscribed_with_scheduler', 'fatal_error_in_branch', 'branches>=3', 'join:zip', 'join:merge', 'join:combine_latest', 'reused_slot', 'unequal_rates', 'nested_tee',
                   'plain_mode', 'window_in_branch', 'silent_branch_lifetime')
    weights = {'tee_map': 5, 'filter': 6, 'flat_map': 4, 'map': 6, 'scan': 5, 'batch': 4, 'last': 3, 'to_list': 3, 'count': 3, 'take': 3,
               'first': 2, 'progress': 0, 'roll': 2, 'split': 2, 'group_by': 2, 'time_split': 0}

    def valid(self, case):
        if case.get('mode') == 'plain':
            if not case['events']:
                return False
            ok = valid(case['program'], St('int', False), Flags(dual=True, no_mut_stream=True, deny=('dist_update', 'sort', 'to_deque'), deny_accs=('nreset',)))
        else:
            ok = PipelineCheck.valid(self, case)
        return ok and path_to_first_tee(case['program']) is not None

    def gen_tee(self, rng, g, st, fl, nest):
        nb = rng.choice([2, 2, 3, 3, 4])
        bs = [g.pipeline(st, fl.sub(in_tee=True), nest, rng.choice([1, 1, 2, 3])) for _ in range(nb)]
        return {'op': 'tee_map', 'join': rng.choice(['zip', 'merge', 'combine_latest', 'combine_latest']), 'branches': bs}

    def gen(self, rng, tier):
        case = self.gen0(rng, tier)
        if rng.random() < 0.25:
            # a fatal error raised inside one branch (assert_ failing on the value 7)
            c2 = copy.deepcopy(case)
            tee, _, _ = tee_taps(c2['program'])
            b = rng.choice(tee['branches'])
            b.insert(rng.randrange(len(b) + 1), {'op': 'assert_', 'pred': 'not7'})
            if self.valid(c2):
                return c2
        if rng.random() < 0.12:
            # the pipeline is subscribed with an explicit scheduler and a branch contains an operator that depends on the
            # subscribe-time scheduler (as rx's time operators do): it must see the same scheduler as when the branch runs alone
            c2 = copy.deepcopy(case)
            tee, _, _ = tee_taps(c2['program'])
            b = rng.choice(tee['branches'])
            b.insert(rng.randrange(len(b) + 1), {'op': 'sched_tag'})
            c2['scheduler'] = True
            if self.valid(c2):
                return c2
        return case

    def gen0(self, rng, tier):
        parties, maxev = self.sizes(rng, tier)
        g = Gen(rng, weights=self.weights, max_nest=2, small=(tier == 'quick'))
        if rng.random() < 0.15:
            fl = Flags(dual=True, no_mut_stream=True, deny=('dist_update', 'sort', 'to_deque'), deny_accs=('nreset',))
            st = St('int', False)
            pre = g.pipeline(st, fl.sub(deny=('tee_map', 'dist_update', 'sort', 'to_deque', 'take', 'first', 'last', 'to_list', 'batch')), 0, 1) \
                if rng.random() < 0.3 else []
            from rxsim.program import check_pipeline
            st2 = check_pipeline(pre, st, fl)
            program = pre + [self.gen_tee(rng, g, st2, fl, rng.choice([0, 0, 1]))]
            if not valid(program, st, fl):
                program = [{'op': 'tee_map', 'join': 'zip', 'branches': [[{'op': 'count'}], [{'op': 'map', 'fn': 'inc'}]]}]
            events, style = gen_events(rng, 1, maxev, min_len=1)
            return {'program': program, 'events': events, 'end': 'complete', 'style': style, 'mode': 'plain'}
        fl = Flags()
        kind = rng.choice(['none', 'group_by', 'group_by', 'roll', 'roll', 'split', 'split', 'time_split'])
        inner_empty = kind in ('none', 'time_split')
        st = St('rec', inner_empty)
        pre = [{'op': 'map', 'fn': 'v_of'}] if rng.random() < 0.7 else []
        st2 = St('int', inner_empty) if pre else st
        tee = self.gen_tee(rng, g, st2, fl, rng.choice([0, 1, 1]))
        post = []
        inner = pre + [tee]
        if kind == 'none':
            program = inner
        elif kind == 'group_by':
            program = [{'op': 'group_by', 'key': rng.choice(['rk', 'rk_big', 'rk_tup']), 'inner': inner}]
        elif kind == 'roll':
            program = [{'op': 'roll', 'window': rng.randint(1, 5), 'stride': rng.randint(1, 5), 'inner': inner}]
        elif kind == 'split':
            program = [{'op': 'split', 'key': rng.choice(['rv_mod3', 'rn_div3', 'rv_tup']), 'inner': inner}]
        else:
            program = [{'op': 'time_split', 'active': rng.choice([None, 3, 5]), 'inactive': rng.choice([None, 1, 2]),
                        'closing': rng.random() < 0.5, 'include': rng.random() < 0.5, 'inner': inner}]
        if kind in ('roll', 'split') and rng.random() < 0.3:
            program = [{'op': 'group_by', 'key': 'rk', 'inner': program}]
        if not valid(program, St('rec', True), fl):
            program = [{'op': 'roll', 'window': 2, 'stride': 2, 'inner': [{'op': 'tee_map', 'join': 'zip', 'branches': [
                [{'op': 'count', 'reduce': False}], [{'op': 'filter', 'fn': 'r_even'}]]}]}]
        ts = find_nodes(program, lambda n: n['op'] == 'time_split')
        to = (ts[0].get('active'), ts[0].get('inactive')) if ts else (None, None)
        events, style = gen_events(rng, parties, maxev, timeouts=to, p_close=0.25 if ts else 0.0,
                                   values=rng.choice(['small', 'runs', 'dups', 'inc']))
        return {'program': program, 'events': events, 'end': rng.choice(['complete'] * 8 + ['error', 'dispose']), 'style': style, 'mode': 'mux'}

    def expected_failure(self, case, program, plain, items):
        """(source event, branch, canonical error, {branch: records alone}) of the first fatal error a branch raises when run
        alone under the same wrapper and schedule; None when no branch fails."""
        tee, path, i = tee_taps(program)
        best = None
        alone = {}
        for bi, b in enumerate(tee['branches']):
            prog2, tail2 = branch_alone(program, bi)
            if plain:
                c2, f2, e2 = run_plain(prog2, items, case['end'], extra=sched_extra(case))
            else:
                c2, f2, e2 = run_mux(prog2, case['events'], case['end'], monitor=False, extra=sched_extra(case))
            if c2.aborted:
                return 'aborted'
            alone[bi] = [(s, k, key, v) for _, s, k, key, v in c2.taps.get(tail2, []) if k in ('N', 'C', 'D', 'E')]
            if e2 is None and f2.terminal and f2.terminal[0] == 'error' and f2.terminal[1][1] != 'SourceError':
                at = [s for _, s, k, _, _ in c2.taps.get('OUT', []) if k == 'e']
                if at and (best is None or at[0] < best[0]):
                    best = (at[0], bi, f2.terminal[1])
        if best is None:
            return None
        return best + (alone,)

    def check_failing(self, out, case, program, plain, ctx, final, exp):
        """A branch ends with on_error when run alone: so does the tee, in the same source event, with that error,
        and until then every branch emitted what it emits alone."""
        at, bi, err, alone = exp
        p = out.probes
        p['fatal_error_in_branch'] += 1
        out.faults['assert_failed_in_branch'] += 1
        tee, path, i = tee_taps(program)
        got_at = [s for _, s, k, _, _ in ctx.taps.get('OUT', []) if k == 'e']
        if not final.terminal or final.terminal[0] != 'error' or final.terminal[1] != err or got_at[:1] != [at]:
            out.add('branch-error-not-surfaced', 'tee_map', {'join': tee['join'], 'branch': bi, 'branch_alone_fails_with': err,
                                                             'in_source_event': at, 'tee_terminal': final.terminal, 'at': got_at[:1]})
        late = [(s, v) for _, s, k, _, v in ctx.taps.get('OUT', []) if k == 'N' and s > at]
        if late and not out.violations:
            out.add('output-after-branch-error', 'tee_map', {'failing_event': at, 'late': late[:10]})
        for b2, b in enumerate(tee['branches']):
            intee = ctx.taps.get('%s/%d:b%d/%d' % (path, i, b2, len(b)), [])
            a = [(s, k, key, v) for _, s, k, key, v in intee if k in ('N', 'C', 'D', 'E') and s < at]
            b_ = [x for x in alone[b2] if x[0] < at]
            if a != b_ and not out.violations:
                out.add('branch!=alone', 'tee_map', {'join': tee['join'], 'branch': b2, 'branch_ops': b, 'in_tee': a[:40], 'alone': b_[:40],
                                                     'until_event': at})
        out.digest = ctx.trace_digest() + repr(final.terminal)
        out.nontrivial = at >= 2
        p['join:' + tee['join']] += 1
        if plain:
            p['plain_mode'] += 1
        return out

    def execute(self, case):
        out = Outcome()
        program = case['program']
        plain = case.get('mode') == 'plain'
        out.shape = (shape_of(case), plain)
        out.steps = len(case['events']) + 1
        out.ticks = case['events'][-1]['t'] if case['events'] else 0
        p = out.probes
        if plain:
            items = [e['v'] for e in case['events']]
            ctx, final, escaped = run_plain(program, items, case['end'], extra=sched_extra(case))
        else:
            ctx, final, escaped = run_mux(program, case['events'], case['end'], monitor=False, extra=sched_extra(case))
        if ctx.aborted:
            p['aborted_work_budget'] += 1
            return out
        failed = escaped is not None or (final.terminal and final.terminal[0] == 'error' and
                                         not (case['end'] == 'error' and final.terminal[1][1] == 'SourceError'))
        if find_nodes(program, lambda n: n.get('pred') == 'not7') and escaped is None:
            exp = self.expected_failure(case, program, plain, items if plain else None)
            if exp == 'aborted':
                p['aborted_work_budget'] += 1
                return out
            if exp is not None:
                return self.check_failing(out, case, program, plain, ctx, final, exp)
        if failed:
            p['sut_error'] += 1
            out.add('raised', 'pipeline', {'error': repr(escaped) if escaped is not None else final.terminal[1]})
            return out
        dig = [ctx.trace_digest()]
        for f in local_check(program, ctx, 'plain' if plain else 'mux', only={'tee_map'}):
            if f.kind in KINDS:
                out.add(f.kind, 'tee_map', f.detail)
        tee, path, i = tee_taps(program)
        counts = []
        for bi, b in enumerate(tee['branches']):
            intee = ctx.taps.get('%s/%d:b%d/%d' % (path, i, bi, len(b)), [])
            prog2, tail2 = branch_alone(program, bi)
            if plain:
                c2, f2, e2 = run_plain(prog2, items, case['end'], extra=sched_extra(case))
            else:
                c2, f2, e2 = run_mux(prog2, case['events'], case['end'], monitor=False, extra=sched_extra(case))
            if c2.aborted:
                continue
            alone = c2.taps.get(tail2, [])
            a = [(s, k, key, v) for _, s, k, key, v in intee if k in ('N', 'C', 'D', 'E')]
            b_ = [(s, k, key, v) for _, s, k, key, v in alone if k in ('N', 'C', 'D', 'E')]
            counts.append(sum(1 for x in a if x[1] == 'N'))
            dig.append(repr(b_))
            if a != b_ and not out.violations:
                out.add('branch!=alone', 'tee_map', {'join': tee['join'], 'branch': bi, 'branch_ops': b,
                                                     'in_tee': a[:40], 'alone': b_[:40]})
        out.digest = '|'.join(dig) + repr(final.terminal)
        out.states = tuple(ctx.extra.get('states', ()))
        n_in = sum(1 for r in ctx.taps.get('%s/%d' % (path, i), []) if r[2] == 'N')
        reused = False
        if not plain:
            ls, _ = lifetimes(ctx.taps.get('%s/%d' % (path, i), []))
            seen = {}
            for l in ls:
                seen[l.key] = seen.get(l.key, 0) + 1
            reused = any(v >= 2 for v in seen.values())
            if reused:
                p['reused_slot'] += 1
            # a branch that stays silent for a whole lifetime while another one emits
            bl = [lifetimes(ctx.taps.get('%s/%d:b%d/%d' % (path, i, bi, len(b)), []))[0] for bi, b in enumerate(tee['branches'])]
            if bl and all(len(x) == len(bl[0]) for x in bl):
                for li in range(len(bl[0])):
                    cs = [len(x[li].items) for x in bl]
                    if min(cs) == 0 and max(cs) > 0:
                        p['silent_branch_lifetime'] += 1
                        break
        unequal = len(set(counts)) > 1
        out.nontrivial = n_in >= 3 and (unequal or reused)
        if unequal:
            p['unequal_rates'] += 1
        if len(tee['branches']) >= 3:
            p['branches>=3'] += 1
        p['join:' + tee['join']] += 1
        if any('tee_map' in ops_in(b) for b in tee['branches']):
            p['nested_tee'] += 1
        if any(ops_in(b) & {'roll', 'split', 'group_by'} for b in tee['branches']):
            p['window_in_branch'] += 1
        if case.get('scheduler'):
            p['subscribed_with_scheduler'] += 1
        if plain:
            p['plain_mode'] += 1
        if case['end'] != 'complete':
            out.faults['source_' + case['end']] += 1
        return out


CHECK = C08()
