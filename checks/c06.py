"""C06 - split cuts each key's stream into maximal runs of equal predicate value."""
from rxsim.program import Gen, Flags, St
from .modelcheck import ModelCheck
from .c05 import KINDS
from .common import find_nodes


class C06(ModelCheck):
    id = 'C06'
    title = 'split: maximal runs of equal predicate value'
    focus = ('split',)
    kinds = KINDS
    rule = ('case = program with split(predicate) whose predicate values are equal-but-never-identical big ints, tuples, strings, small ints, numpy scalars, nan (shared and fresh), plain objects equal only to themselves, or the answers of an impure counting predicate (recorded, one per item), '
            'at top level, under group_by with interleaved keys and nested in roll/split, x seeded interleaving; the run model (new segment '
            'exactly when the predicate value != the previous one) is checked between the tap in front of split and the head tap of its inner '
            'pipeline (items, creation event, close event = first item of the next run or the key\'s completion) plus the demux. '
            'non-trivial: >= 3 events reach a split; distinct = distinct (program, schedule)')
    assumptions = []
    probe_names = ('pred:impure_counter', 'pred:identity_equal_object', 'pred:nan', 'pred:numpy', 'run_len1', 'single_run', 'empty_key', 'pred:big', 'pred:tuple', 'pred:str', 'under_group_by', 'nested')
    values = ('small', 'inc', 'runs', 'runs', 'dups', 'dups')

    def gen_program(self, rng, tier):
        g = Gen(rng, weights={'split': 4, 'roll': 2, 'group_by': 2, 'time_split': 0, 'progress': 0, 'tee_map': 1}, max_nest=2,
                small=(tier == 'quick'))
        key = rng.choice(['rv_mod3', 'rv_div2big', 'rv_tup', 'rn_div3', 'rk_big', 'rk_tup', 'rk', 'rv_mixed', 'rv_zero', 'rv_nest', 'rv_np', 'rv_npf', 'rv_nan', 'rv_nan_fresh', 'rv_obj', 'cnt3', 'rv_dt64ns', 'rv_fset', 'rv_strhash'])
        inner = g.pipeline(St('rec'), Flags(deny=('time_split', 'progress')), rng.choice([0, 1, 1]), rng.choice([1, 2, 2, 3]))
        node = {'op': 'split', 'key': key, 'inner': inner}
        shape = rng.random()
        if shape < 0.35:
            return [node]
        if shape < 0.7:
            return [{'op': 'group_by', 'key': rng.choice(['rk', 'rk_big', 'rk_tup']), 'inner': [node]}]
        if shape < 0.85:
            return [{'op': 'roll', 'window': rng.randint(1, 6), 'stride': rng.randint(1, 6), 'inner': [node]}]
        return [{'op': 'split', 'key': rng.choice(['rv_mod3', 'rn_div3']), 'inner': [node]}]

    def probe(self, case, ctx, out):
        ModelCheck.probe(self, case, ctx, out)
        p = out.probes
        sp = find_nodes(case['program'], lambda x: x['op'] == 'split')
        for n in sp:
            k = n['key']
            if 'big' in k:
                p['pred:big'] += 1
            if 'tup' in k:
                p['pred:tuple'] += 1
            if k == 'rn_div3':
                p['pred:str'] += 1
            if 'nan' in k:
                p['pred:nan'] += 1
            if k == 'cnt3':
                p['pred:impure_counter'] += 1
            if k == 'rv_obj':
                p['pred:identity_equal_object'] += 1
            if '_np' in k:
                p['pred:numpy'] += 1
        if not case['events']:
            p['empty_key'] += 1
        top = case['program'][0]['op']
        if top == 'group_by':
            p['under_group_by'] += 1
        if len(sp) >= 2 or top == 'roll':
            p['nested'] += 1
        # run statistics from the head tap of the first split
        from rxsim.pipesim import lifetimes
        from rxsim.program import walk
        for node, path, in_tap, out_tap, i in walk(case['program']):
            if node['op'] == 'split':
                subs, _ = lifetimes(ctx.taps.get('%s/%d:in/0' % (path, i), []))
                if any(len(s.items) == 1 for s in subs):
                    p['run_len1'] += 1
                if len(subs) == 1:
                    p['single_run'] += 1
                break


CHECK = C06()
