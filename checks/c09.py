"""C09 - scan/reduce algebra: running folds, final fold, per-key seed isolation."""
import copy

from rxsim.runner import Outcome
from rxsim.program import Gen, Flags, St, MATH
from rxsim.pipesim import run_mux, lifetimes
from .modelcheck import ModelCheck
from .common import find_nodes

SCANNY = ('scan', 'count', 'sum', 'mean', 'min', 'max', 'variance', 'stddev', 'to_list', 'to_array', 'batch',
          'distinct_until_changed', 'progress', 'dist_update')
HAS_REDUCE = ('scan', 'count', 'sum', 'mean', 'min', 'max', 'variance', 'stddev', 'dist_update')


def innermost_last(program):
    """(list, node, tail tap id) of the last node of the innermost pipeline reached by following last nodes."""
    nodes, path = program, 'P'
    while True:
        last = nodes[-1]
        if 'inner' in last:
            path = '%s/%d:in' % (path, len(nodes) - 1)
            nodes = last['inner']
        else:
            return nodes, last, '%s/%d' % (path, len(nodes))


class C09(ModelCheck):
    id = 'C09'
    title = 'scan/reduce algebra and seed isolation'
    focus = SCANNY
    kinds = ('values', 'raised', 'lifetimes')
    rule = ('case = program whose innermost pipeline ends in a scan-family operator (scan with generated accumulators incl. ones that mutate and '
            'return their argument, value and factory seeds, reduce on/off, terminator on/off; count/sum/mean/min/max/variance/stddev/to_list/'
            'to_array/batch/distinct_until_changed/progress/dist.update) behind filters that may empty a key, under group_by (interleaved keys) and '
            'under roll/split (reused slots), x seeded interleaving; oracle 1: left-fold model from a fresh seed per lifetime, compared with the '
            'deep-copied records at the tap directly behind the operator; oracle 2 (relation, no model): the same case with the reduce flag '
            'flipped - last streaming value == the single reduce value, per lifetime. non-trivial: >= 3 events reach a scan-family operator; '
            'distinct = distinct (program, schedule)')
    assumptions = ['accumulators return the seed\'s type', 'mean(reduce) is not applied to a key that may be empty',
                   'float results compared with relative tolerance 1e-9 against the model, exactly in the relation']
    probe_names = ('in_place_consumer_behind', 'plain_twin', 'accumulator_returns_None', 'mutating_acc', 'factory_seed', 'value_seed', 'terminator', 'empty_key', 'reused_slot', 'relation_checked',
                   'keys>=3', 'typed_state:int', 'typed_state:float', 'typed_state:bool')
    weights = {'filter': 5, 'map': 4, 'progress': 0}

    def gen_program(self, rng, tier):
        if rng.random() < 0.06:
            # successive lifetimes of one slot, some of them emptied by a filter, a reduced list accumulator handed to a consumer that
            # changes it in place: what a key that received nothing emits must not be the seed object later lifetimes are copied from
            inner = [{'op': 'map', 'fn': 'v_of'}, {'op': 'filter', 'fn': rng.choice(['is_even', 'lt5', 'ne3', 'never'])},
                     {'op': 'scan', 'fn': rng.choice(['append', 'append_pure']), 'seed': rng.choice(['l_val', 'l_val', 'l_fac', 'l_fac9']),
                      'reduce': True, 'term': None},
                     {'op': 'map', 'fn': rng.choice(['l_trailer', 'l_pop'])}]
            w = rng.randint(1, 4)
            wrap = rng.choice([{'op': 'split', 'key': rng.choice(['rn_div3', 'rv_mod3'])}, {'op': 'roll', 'window': w, 'stride': rng.choice([w, w, w + 1])}])
            wrap['inner'] = inner
            if rng.random() < 0.4:
                return [{'op': 'group_by', 'key': 'rk', 'inner': [wrap]}]
            return [wrap]
        g = Gen(rng, weights=self.weights, max_nest=1, small=(tier == 'quick'))
        fl = Flags(deny=('time_split', 'tee_map', 'group_by', 'roll', 'split', 'progress', 'scan', 'batch', 'to_list', 'to_array'))
        prefix = [{'op': 'map', 'fn': 'v_of'}]
        shape = rng.random()
        st = St('int', shape >= 0.9)    # unwrapped: the only key is empty when the source is
        for _ in range(rng.choice([0, 0, 1, 1, 2])):
            nodes = g.pipeline(st, fl, 0, 1)
            from rxsim.program import check_pipeline
            st = check_pipeline(nodes, st, fl)
            prefix += nodes
        # the focus operator, last in its pipeline
        focus = None
        fg = Gen(rng, weights={}, max_nest=0)
        for _ in range(40):
            op = rng.choice(['scan'] * 8 + ['count', 'sum', 'mean', 'min', 'max', 'variance', 'stddev', 'to_list', 'to_array',
                                            'batch', 'distinct_until_changed', 'progress', 'dist_update'])
            cands = fg.candidates(op, st, Flags(), 0)
            if not cands:
                continue
            from rxsim.program import check_node, Invalid
            try:
                check_node(cands[0], st, Flags())
            except (Invalid, KeyError):
                continue
            focus = cands[0]
            break
        if focus is None:
            focus = {'op': 'count', 'reduce': True}
        inner = prefix + [focus]
        try:
            from rxsim.program import check_node, Invalid
            sf = check_node(focus, st, Flags())
            if sf.own and sf.t == 'list' and rng.random() < 0.5:
                # a consumer that changes the list it was handed in place (it owns it): the next lifetimes must not see that
                inner.append({'op': 'map', 'fn': rng.choice(['l_trailer', 'l_pop'])})
        except (Invalid, KeyError):
            pass
        if shape < 0.45:
            return [{'op': 'group_by', 'key': rng.choice(['rk', 'rk_big', 'rk_tup']), 'inner': inner}]
        if shape < 0.65:
            return [{'op': 'roll', 'window': rng.randint(1, 5), 'stride': rng.randint(1, 5), 'inner': inner}]
        if shape < 0.8:
            return [{'op': 'split', 'key': rng.choice(['rv_mod3', 'rn_div3']), 'inner': inner}]
        if shape < 0.9:
            return [{'op': 'group_by', 'key': 'rk', 'inner': [{'op': 'roll', 'window': rng.randint(1, 4), 'stride': rng.randint(1, 4),
                                                                  'inner': inner}]}]
        return inner

    def execute(self, case):
        out = ModelCheck.execute(self, case)
        if out.violations or out.probes.get('sut_error') or out.probes.get('aborted_work_budget') or case['end'] != 'complete':
            return out
        nodes, last, tail = innermost_last(case['program'])
        if last['op'] in HAS_REDUCE:
            twin = copy.deepcopy(case['program'])
            tn, tl, _ = innermost_last(twin)
            tl['reduce'] = not bool(last.get('reduce'))
            if self.valid(dict(case, program=twin)):
                a, fa, ea = run_mux(case['program'], case['events'], 'complete', monitor=False)
                b, fb, eb = run_mux(twin, case['events'], 'complete', monitor=False)
                if not (a.aborted or b.aborted):
                    la, _ = lifetimes(a.taps.get(tail, []))
                    lb, _ = lifetimes(b.taps.get(tail, []))
                    if last.get('reduce'):
                        la, lb = lb, la     # la: streaming, lb: reduce
                    out.probes['relation_checked'] += 1
                    if len(la) != len(lb):
                        out.add('reduce-relation', last['op'], {'lifetimes_streaming': len(la), 'lifetimes_reduce': len(lb)})
                    else:
                        for x, y in zip(la, lb):
                            sv, rv = x.values(), y.values()
                            if x.eg is None:
                                continue
                            if len(rv) != 1 or (sv and sv[-1] != rv[0]):
                                out.add('reduce-relation', last['op'], {'node': last, 'streaming': sv[-3:], 'reduce': rv, 'key': x.key})
                                break
        # the same fold model on an ordinary observable (the other branch of the isinstance dispatch), one party's items
        from rxsim.program import valid as _valid, Flags as _Flags, St as _St
        from rxsim.pipesim import run_plain
        from rxsim.ref import local_check
        from rxsim.workload import mk_rec
        if _valid(nodes, _St('rec', True), _Flags(dual=True)):
            parties = sorted(set(e['p'] for e in case['events']))
            if parties:
                recs = [mk_rec(e) for e in case['events'] if e['p'] == parties[0]]
                pctx, pfinal, pesc = run_plain(nodes, recs, 'complete')
                if not pctx.aborted and pesc is None and not (pfinal.terminal and pfinal.terminal[0] == 'error'):
                    out.probes['plain_twin'] += 1
                    for f in local_check(nodes, pctx, 'plain', only=set(SCANNY)):
                        if f.kind in ('values',):
                            out.add(f.kind, f.op + '@plain', f.detail)
                    out.digest += pctx.trace_digest()
        return out

    def probe(self, case, ctx, out):
        ModelCheck.probe(self, case, ctx, out)
        from rxsim import funcs as F
        p = out.probes
        if find_nodes(case['program'], lambda x: x['op'] == 'map' and x.get('fn') in ('l_trailer', 'l_pop')):
            p['in_place_consumer_behind'] += 1
        for n in find_nodes(case['program'], lambda x: x['op'] == 'scan'):
            a = F.ACCS[n['fn']]
            if a[3]:
                p['mutating_acc'] += 1
            if n['fn'] == 'nreset':
                p['accumulator_returns_None'] += 1
            if F.SEEDS[n['seed']][2]:
                p['factory_seed'] += 1
            else:
                p['value_seed'] += 1
            if n.get('term'):
                p['terminator'] += 1
            if a[2] in ('int', 'float', 'bool'):
                p['typed_state:' + a[2]] += 1
        if find_nodes(case['program'], lambda x: x['op'] == 'filter'):
            p['empty_key'] += 1
        if case['program'][0]['op'] in ('roll', 'split') or find_nodes(case['program'], lambda x: x['op'] == 'roll'):
            p['reused_slot'] += 1
        if len(set(e['p'] for e in case['events'])) >= 3:
            p['keys>=3'] += 1


CHECK = C09()
