"""C16 - compression round-trips under re-chunking and flags truncated streams."""
import gzip
import io
import random

import rx
import zstandard
import rxsci.compression.z as z
import rxsci.compression.zstd as zstd

from rxsim.runner import Check, Outcome
from rxsim.bytesim import gen_cuts, cut, drive, collect, drive_concurrent, merge_order, drive_reused_buffer

TEXT = b'the quick brown fox jumps over the lazy dog \n'


def mk_chunk(spec):
    kind, n, seed = spec['kind'], spec['n'], spec.get('seed', 0)
    if kind == 'zeros':
        return bytes(n)
    if kind == 'text':
        return (TEXT * (n // len(TEXT) + 1))[:n]
    return random.Random(seed).randbytes(n)


def reference_decode(codec, blob):
    if codec == 'gzip':
        return gzip.decompress(blob)
    return zstandard.ZstdDecompressor().stream_reader(io.BytesIO(blob)).read()


class C16(Check):
    id = 'C16'
    title = 'compression round-trips under re-chunking, truncation is flagged'
    rule = ('case = chunk list (empty chunks, empty list, sizes 0 .. several internal buffers, compressible and PRNG bytes) compressed by the real '
            'compress() (gzip, zstd); the concatenated compressed bytes are re-cut by a seeded schedule (empty segments anywhere, 1-byte segments, '
            'cuts in header/trailer) and, for compressed streams <= 400 bytes, every single cut position is swept; fed through the real '
            'decompress(). oracle: joined output == joined input; gzip.decompress / an independent zstandard stream reader accept the compressed '
            'bytes and give the same data. fault: truncation at every offset < len (all of them for streams <= 2 KiB, sampled with bias to header '
            'and trailer otherwise) then completion: decompress must deliver on_error and never on_completed. non-trivial: >= 1 non-empty chunk '
            'and >= 1 cut strictly inside the compressed stream; distinct = distinct (chunks, codec, schedule)')
    real = ['rxsci.compression.z / zstd compress() and decompress() (current working tree)', 'zlib, zstandard (C libraries)', 'RxPY Subject/pipe']
    stubs = ['producer of the chunks', 'transport re-cutting / truncating the compressed bytes', 'final subscriber']
    assumptions = ['reference decoders (gzip module, zstandard stream reader) are trusted']
    probe_names = ('producer_reuses_its_buffer', 'buffer_size_aligned_chunks', 'nested_same_operator', 'concurrent_streams', 'one_chunk_inflates>1MiB', 'codec:gzip', 'codec:zstd', 'empty_list', 'empty_chunk_in', 'empty_segment', 'empty_segment_after_end', 'one_byte_segments',
                   'incompressible', 'input>=64KiB', 'truncations_all_offsets', 'swept_all_single_cuts')
    quick_budget = 20.0
    quick_cap = 100000

    def gen(self, rng, tier):
        codec = rng.choice(['gzip', 'zstd'])
        n = rng.choice([0, 1, 1, 2, 3, 5])
        big = rng.random() < (0.04 if tier == 'quick' else 0.25)     # inputs crossing the codecs' internal buffer sizes
        chunks = []
        for _ in range(n):
            kind = rng.choice(['zeros', 'text', 'rand'])
            if big:
                size = rng.choice([0, 1000, 70000, 140000, 400000, 1100000 if kind != 'rand' else 70000, 3000000 if kind != 'rand' else 1000])
            else:
                size = rng.choice([0, 0, 1, 5, 50, 300, 3000, 20000 if rng.random() < 0.2 else 100, 70000 if rng.random() < 0.15 else 7])
            chunks.append({'kind': kind, 'n': size, 'seed': rng.randrange(1000)})
        case = {'codec': codec, 'chunks': chunks, 'cutseed': rng.randrange(1 << 30),
                'truncs': rng.choice(['all', 'all', 'sample', 'none'])}
        if not big and rng.random() < 0.25:
            case['reuse'] = True       # chunks are memoryviews of one buffer that the producer overwrites after each on_next
        if not big and rng.random() < 0.2:
            case['nested'] = rng.choice([codec, codec, 'gzip', 'zstd'])
        if not big and rng.random() < 0.25:
            case['concurrent'] = [[{'kind': rng.choice(['zeros', 'text', 'rand']), 'n': rng.choice([0, 1, 50, 300, 3000]), 'seed': rng.randrange(1000)}
                                   for _ in range(rng.choice([1, 2, 3]))] for _ in range(rng.choice([1, 1, 2]))]
        return case

    def valid(self, case):
        try:
            return case['codec'] in ('gzip', 'zstd') and all(c['kind'] in ('zeros', 'text', 'rand') and 0 <= c['n'] <= 4000000 for c in case['chunks']) \
                and (case.get('cuts') is None or all(isinstance(c, int) and c >= 0 for c in case['cuts']))
        except (KeyError, TypeError):
            return False

    def normalize(self, case):
        case = dict(case)
        if case.get('cuts') is not None:
            case['cuts'] = sorted(case['cuts'])
        return case

    def schedules(self, case, blob):
        """(cuts list, sweep flag); cuts are derived from the case's own PRNG seed unless pinned by the minimiser."""
        n = len(blob)
        if case.get('cuts') is not None:
            return list(case['cuts'])
        rng = random.Random(case['cutseed'])
        hot = [1, 2, 3, 4, 9, 10, n - 9, n - 8, n - 4, n - 1, n, n]
        return gen_cuts(rng, n, [h for h in hot if 0 <= h <= n])

    def execute(self, case):
        out = Outcome()
        codec = case['codec']
        mod = z if codec == 'gzip' else zstd
        p = out.probes
        p['codec:' + codec] += 1
        data = [mk_chunk(c) for c in case['chunks']]
        plain = b''.join(data)
        pieces, t = collect(rx.from_(data).pipe(mod.compress()))
        if t is None or t[0] != 'completed':
            out.add('compress-failed', codec, {'terminal': repr(t)})
            return out
        blob = b''.join(pieces)
        try:
            ref = reference_decode(codec, blob)
        except Exception as e:
            ref = e
        if ref != plain:
            out.add('not-a-valid-standalone-file', codec, {'reference': repr(ref)[:200], 'len': len(blob)})
            return out
        if case.get('reuse'):
            # the producer reuses one mutable buffer for all chunks (readinto idiom), for compress and for decompress
            p['producer_reuses_its_buffer'] += 1
            pieces_r, tr = drive_reused_buffer(data, mod.compress())
            try:
                ref_r = reference_decode(codec, b''.join(pieces_r)) if tr is not None and tr[0] == 'completed' else tr
            except Exception as e:
                ref_r = e
            if ref_r != plain:
                out.add('compress-kept-a-reference-to-a-chunk', codec, {'terminal': repr(tr), 'decoded': repr(ref_r)[:200], 'plain': repr(plain)[:200]})
                return out
            cs_r = self.schedules(case, blob)
            got_r, term_r = drive_reused_buffer(cut(blob, cs_r), mod.decompress())
            if term_r is None or term_r[0] != 'completed' or b''.join(got_r) != plain:
                out.add('decompress-kept-a-reference-to-a-chunk', codec, {'terminal': repr(term_r), 'cuts': cs_r})
                return out
        n = len(blob)
        cuts = self.schedules(case, blob)
        scheds = [cuts]
        pinned = case.get('cuts') is not None
        if not pinned and n > 16384:
            # fixed-size re-chunkings and tails aligned on the buffer sizes the codecs themselves use
            consts = sorted(set([16384, 32768, 65536, 131072, zstandard.DECOMPRESSION_RECOMMENDED_INPUT_SIZE,
                                 zstandard.DECOMPRESSION_RECOMMENDED_OUTPUT_SIZE, zstandard.COMPRESSION_RECOMMENDED_INPUT_SIZE,
                                 zstandard.COMPRESSION_RECOMMENDED_OUTPUT_SIZE]))
            for cst in consts:
                if cst < n:
                    scheds.append(list(range(cst, n, cst)))               # every chunk exactly `cst` bytes, the rest last
                    scheds.append([n - k * cst for k in range(n // cst, 0, -1)])   # the LAST chunks exactly `cst` bytes
            p['buffer_size_aligned_chunks'] += 1
        if n <= 400 and not pinned:
            scheds += [[k] for k in range(0, n + 1)] + [[k, k] for k in (0, n // 2, n)]
            p['swept_all_single_cuts'] += 1
        runs = 0
        for cs in scheds:
            runs += 1
            got, term, _ = drive(cut(blob, cs), mod.decompress())
            if term is None or term[0] != 'completed' or b''.join(got) != plain:
                out.add('roundtrip', codec, {'cuts': cs, 'compressed_len': n, 'terminal': repr(term),
                                             'got_len': len(b''.join(got)), 'expected_len': len(plain)})
                break
        # truncation
        if not out.violations and case.get('truncs') != 'none' and case.get('trunc_at', True) is not None:
            if case.get('trunc_at') is not None and case.get('trunc_at') is not True:
                offs = [case['trunc_at']]
            elif n <= 2048 and case.get('truncs') == 'all':
                offs = list(range(0, n))
                p['truncations_all_offsets'] += 1
            else:
                rng = random.Random(case['cutseed'] ^ 0x5bd1)
                offs = sorted(set([0, 1, 2, 9, 10, 11, n - 1, n - 2, n - 4, n - 8, n - 9] + [rng.randrange(n) for _ in range(12)]))
                offs = [o for o in offs if 0 <= o < n]
            for o in offs:
                runs += 1
                got, term, _ = drive(cut(blob, [c for c in cuts if c < o], o), mod.decompress())
                out.faults['truncated_stream'] += 1
                if term is None or term[0] != 'error':
                    out.add('truncation-not-flagged', codec, {'truncate': o, 'compressed_len': n, 'terminal': repr(term)})
                    break
        # several streams of the same codec alive at the same time, their chunks interleaved by the seeded schedule
        if not out.violations and case.get('concurrent'):
            others = [[mk_chunk(c) for c in cl] for cl in case['concurrent']]
            streams = [data] + others
            rng = random.Random(case['cutseed'] ^ 0x77)
            res = drive_concurrent(streams, lambda i: mod.compress(), merge_order(rng, [len(x) for x in streams]))
            p['concurrent_streams'] += 1
            blobs = []
            for i, (pieces_i, term_i) in enumerate(res):
                b_i = b''.join(pieces_i)
                blobs.append(b_i)
                try:
                    ref_i = reference_decode(codec, b_i)
                except Exception as e:
                    ref_i = e
                if term_i is None or term_i[0] != 'completed' or ref_i != b''.join(streams[i]):
                    out.add('concurrent-compress', codec, {'stream': i, 'of': len(streams), 'terminal': repr(term_i),
                                                           'decoded_len': len(ref_i) if isinstance(ref_i, bytes) else repr(ref_i)[:200],
                                                           'expected_len': len(b''.join(streams[i]))})
                    break
            if not out.violations:
                cut_lists = [cut(b_i, gen_cuts(rng, len(b_i), [1, 2, len(b_i) - 1])) for b_i in blobs]
                res = drive_concurrent(cut_lists, lambda i: mod.decompress(), merge_order(rng, [len(x) for x in cut_lists]))
                for i, (got_i, term_i) in enumerate(res):
                    if term_i is None or term_i[0] != 'completed' or b''.join(got_i) != b''.join(streams[i]):
                        out.add('concurrent-decompress', codec, {'stream': i, 'of': len(streams), 'terminal': repr(term_i)})
                        break
        # the same (or the other) codec applied twice in ONE synchronous chain: the inner operator runs nested inside the
        # outer operator's on_next
        if not out.violations and case.get('nested') and len(plain) <= 200000:
            mod2 = {'gzip': z, 'zstd': zstd}[case['nested']]
            rng = random.Random(case['cutseed'] ^ 0x1234)
            pieces2, t2 = collect(rx.from_(data).pipe(mod.compress(), mod2.compress()))
            blob2 = b''.join(pieces2)
            got2, term2, _ = drive(cut(blob2, gen_cuts(rng, len(blob2), [1, 2, len(blob2) - 1])),
                                   rx.pipe(mod2.decompress(), mod.decompress()))
            p['nested_same_operator'] += 1
            if t2 is None or t2[0] != 'completed' or term2 is None or term2[0] != 'completed' or b''.join(got2) != plain:
                out.add('nested', codec, {'inner': codec, 'outer': case['nested'], 'compress_terminal': repr(t2), 'decompress_terminal': repr(term2),
                                          'got_len': len(b''.join(got2)), 'expected_len': len(plain)})
        out.steps = runs
        out.ticks = n
        out.digest = repr((len(blob), blob[:64].hex(), [v.to_json() for v in out.violations], runs))
        out.shape = (repr(case['chunks']), codec, tuple(cuts), case.get('truncs'))
        out.nontrivial = any(len(d) for d in data) and (any(0 < c < n for c in cuts) or n <= 400)
        if not data:
            p['empty_list'] += 1
        if any(len(d) == 0 for d in data):
            p['empty_chunk_in'] += 1
        segs = cut(blob, cuts)
        if any(len(s) == 0 for s in segs):
            p['empty_segment'] += 1
        if len(segs) > 1 and len(segs[-1]) == 0:
            p['empty_segment_after_end'] += 1
        if len(segs) > 3 and all(len(s) <= 1 for s in segs):
            p['one_byte_segments'] += 1
        if any(c['kind'] == 'rand' and c['n'] >= 300 for c in case['chunks']):
            p['incompressible'] += 1
        if len(plain) >= 65536:
            p['input>=64KiB'] += 1
        if len(plain) > 1048576 and n < 65536:
            p['one_chunk_inflates>1MiB'] += 1
        return out

    def extra_candidates(self, case):
        out = self.execute(case)
        for v in out.violations:
            d = v.detail
            if 'cuts' in d:
                yield dict(case, cuts=list(d['cuts']), truncs='none')
            if 'truncate' in d:
                yield dict(case, trunc_at=d['truncate'], cuts=[])

    def signature(self, case, v):
        if v.kind == 'roundtrip' and v.op == 'zstd':
            d = v.detail
            cuts = d.get('cuts') or []
            if cuts and max(cuts) >= d.get('compressed_len', -1):
                return 'roundtrip|zstd|empty chunk after the end of the frame'
        return '%s|%s' % (v.kind, v.op)


CHECK = C16()
